//! C11 — evaluating any expression on any event never panics.
//! Every operator and every builtin of `eval_builtin_function` is applied to boundary values
//! (i64 extremes, -1, 0, NaN, +-inf, huge floats, "", multi-byte strings, nested arrays/maps,
//! durations/timestamps, null, missing) under `catch_unwind`, through four lanes of the REAL code:
//!   api     : `varpulis_runtime::engine::evaluator::eval_filter_expr` on the parsed expression
//!   where   : `stream W = E.where(<expr>).emit(u: uid)`
//!   emit    : `stream M = E.emit(u: uid, r: <expr>)`
//!   process : `stream P = E.process(<expr>)`
//! plus random nested expressions of depth <= 3 over the same operators with fields and literals.
//! Expression kinds the evaluator has no arm for (timestamp literal, `?.`, lambda, block) are run in
//! a child process because a fatal stack overflow cannot be caught in-process.
//! The harness is built with overflow checks on (dev profile), so an arithmetic-overflow panic is a
//! genuine observation. Range sizes are excluded as the statement says (only tiny ranges are used).
use serde_json::{json, Value as J};
use std::sync::Arc;
use vh::eng::*;
use vh::*;
use varpulis_core::ast::{Expr, Program, Stmt, StreamOp};
use varpulis_core::Value;
use varpulis_runtime::engine::evaluator::eval_filter_expr;
use varpulis_runtime::event::Event;
use varpulis_runtime::sequence::SequenceContext;

// ------------------------------------------------------------------------------------------------
// boundary values
// ------------------------------------------------------------------------------------------------
#[derive(Clone)]
struct BV {
    /// None = field missing
    v: Option<Value>,
    label: String,
}

fn mk_map(entries: Vec<(&str, Value)>) -> Value {
    let mut m: indexmap::IndexMap<Arc<str>, Value, rustc_hash::FxBuildHasher> = indexmap::IndexMap::with_hasher(rustc_hash::FxBuildHasher);
    for (k, v) in entries {
        m.insert(k.into(), v);
    }
    Value::map(m)
}

fn s(x: &str) -> Value {
    Value::Str(x.into())
}

fn boundary_values() -> Vec<BV> {
    let mut out: Vec<BV> = vec![];
    let mut push = |v: Option<Value>, label: &str| out.push(BV { v, label: label.to_string() });
    for i in [
        i64::MIN, i64::MIN + 1, -(1i64 << 31) - 1, -2, -1, 0, 1, 2, 3, 63, 64,
        1i64 << 31, 1i64 << 32, 3037000500, (1i64 << 53) + 1, 1i64 << 62, i64::MAX - 1, i64::MAX,
    ] {
        push(Some(Value::Int(i)), &format!("int {}", i));
    }
    for f in [
        f64::NAN, f64::INFINITY, f64::NEG_INFINITY, 0.0, -0.0, 0.5, -1.5, 2.0, 1e308, -1e308, 5e-324,
        9.3e18, -9.3e18, 9223372036854775808.0, 1e19, 4294967296.5,
    ] {
        push(Some(Value::Float(f)), &format!("float {:?}", f));
    }
    for t in ["", "a", "abc", "h\u{e9}llo", "  x ", "123", "-9223372036854775808", "1e400", "\u{65e5}\u{672c}", ",", "nan", "inf"] {
        push(Some(s(t)), &format!("str {:?}", t));
    }
    push(Some(Value::Bool(true)), "bool true");
    push(Some(Value::Bool(false)), "bool false");
    push(Some(Value::Null), "null");
    push(None, "missing");
    push(Some(Value::array(vec![])), "array []");
    push(Some(Value::array(vec![Value::Int(1)])), "array [1]");
    push(Some(Value::array(vec![Value::Int(i64::MAX), Value::Int(1)])), "array [MAX,1]");
    push(Some(Value::array(vec![Value::Int(i64::MIN), Value::Int(-1)])), "array [MIN,-1]");
    push(Some(Value::array(vec![Value::Float(1.5), Value::Float(f64::NAN), s("a"), Value::Null])), "array [1.5,NaN,\"a\",null]");
    push(Some(Value::array(vec![Value::array(vec![Value::Int(1), Value::array(vec![Value::Int(2)])]), Value::array(vec![])])), "array [[1,[2]],[]]");
    push(Some(Value::array(vec![Value::Float(1e308), Value::Float(1e308), Value::Float(f64::NEG_INFINITY)])), "array [1e308,1e308,-inf]");
    {
        // 64 elements of mixed types with NaN: a comparator that is not a total order
        let mut big = vec![];
        for k in 0..64i64 {
            big.push(match k % 4 {
                0 => Value::Int(64 - k),
                1 => s(if k % 8 == 1 { "b" } else { "a" }),
                2 => Value::Float(if k % 8 == 2 { f64::NAN } else { k as f64 / 2.0 }),
                _ => Value::Int(k),
            });
        }
        push(Some(Value::array(big)), "array 64 mixed int/str/float/NaN");
    }
    {
        // 40 floats, every 5th NaN (a sensor array with gaps)
        let v: Vec<Value> = (0..40).map(|k| if k % 5 == 2 { Value::Float(f64::NAN) } else { Value::Float(((k * 7) % 11) as f64) }).collect();
        push(Some(Value::array(v)), "array 40 floats, every 5th NaN");
        // 30 elements alternating int / string
        let v: Vec<Value> = (0..30).map(|k| if k % 2 == 0 { Value::Int(30 - k) } else { s(if k % 4 == 1 { "b" } else { "a" }) }).collect();
        push(Some(Value::array(v)), "array 30 alternating int/str");
        // 33 elements mixing ints and floats with NaNs of BOTH signs and infinities (total-order traps)
        let v: Vec<Value> = (0..33)
            .map(|k| match k % 6 {
                0 => Value::Int(17 - k),
                1 => Value::Float(-f64::NAN),
                2 => Value::Float((k as f64) / 3.0 - 4.0),
                3 => Value::Float(f64::NAN),
                4 => Value::Int(k),
                _ => Value::Float(if k % 12 == 5 { f64::INFINITY } else { f64::NEG_INFINITY }),
            })
            .collect();
        push(Some(Value::array(v)), "array 33 mixed int/float with +NaN, -NaN, +-inf");
        // 25 floats with negative NaNs only
        let v: Vec<Value> = (0..25).map(|k| if k % 4 == 1 { Value::Float(-f64::NAN) } else { Value::Float(((k * 5) % 7) as f64 - 3.0) }).collect();
        push(Some(Value::array(v)), "array 25 floats with -NaN");
    }
    push(Some(mk_map(vec![])), "map {}");
    push(Some(mk_map(vec![("a", Value::Int(1))])), "map {a:1}");
    push(Some(mk_map(vec![("k", mk_map(vec![("k", Value::array(vec![Value::Int(1)]))])), ("", Value::Null)])), "map {k:{k:[1]},\"\":null}");
    push(Some(Value::Duration(0)), "duration 0");
    push(Some(Value::Duration(u64::MAX)), "duration u64::MAX");
    push(Some(Value::Timestamp(i64::MIN)), "timestamp i64::MIN");
    push(Some(Value::Timestamp(i64::MAX)), "timestamp i64::MAX");
    push(Some(Value::Timestamp(0)), "timestamp 0");
    out
}

fn type_of(v: &Option<Value>) -> &'static str {
    match v {
        None => "novalue",
        Some(Value::Null) => "null",
        Some(Value::Bool(_)) => "bool",
        Some(Value::Int(_)) => "int",
        Some(Value::Float(_)) => "float",
        Some(Value::Str(_)) => "str",
        Some(Value::Timestamp(_)) => "timestamp",
        Some(Value::Duration(_)) => "duration",
        Some(Value::Array(_)) => "array",
        Some(Value::Map(_)) => "map",
    }
}

// ------------------------------------------------------------------------------------------------
// operators and builtins
// ------------------------------------------------------------------------------------------------
struct OpSpec {
    name: &'static str,
    arity: usize,
    /// template; $0 $1 $2 are replaced by operand texts
    tpl: &'static str,
}

const fn op(name: &'static str, arity: usize, tpl: &'static str) -> OpSpec {
    OpSpec { name, arity, tpl }
}

fn ops() -> Vec<OpSpec> {
    let mut v = vec![
        // unary
        op("neg", 1, "-$0"),
        op("not", 1, "not $0"),
        op("bitnot", 1, "~$0"),
        // binary operators
        op("add", 2, "$0 + $1"),
        op("sub", 2, "$0 - $1"),
        op("mul", 2, "$0 * $1"),
        op("div", 2, "$0 / $1"),
        op("mod", 2, "$0 % $1"),
        op("pow", 2, "$0 ** $1"),
        op("eq", 2, "$0 == $1"),
        op("ne", 2, "$0 != $1"),
        op("lt", 2, "$0 < $1"),
        op("le", 2, "$0 <= $1"),
        op("gt", 2, "$0 > $1"),
        op("ge", 2, "$0 >= $1"),
        op("in", 2, "$0 in $1"),
        op("not-in", 2, "$0 not in $1"),
        op("is", 2, "$0 is $1"),
        op("and", 2, "$0 and $1"),
        op("or", 2, "$0 or $1"),
        op("bitor", 2, "$0 | $1"),
        op("bitxor", 2, "$0 ^ $1"),
        op("bitand", 2, "$0 & $1"),
        op("shl", 2, "$0 << $1"),
        op("shr", 2, "$0 >> $1"),
        op("coalesce", 2, "$0 ?? $1"),
        op("index", 2, "$0[$1]"),
        op("slice-from", 2, "$0[$1:]"),
        op("slice-to", 2, "$0[:$1]"),
        op("slice", 3, "$0[$1:$2]"),
        op("if", 3, "if $0 then $1 else $2"),
        op("member", 1, "$0.k"),
        op("array-literal", 2, "[$0, $1]"),
        op("map-literal", 2, "{\"k\": $0, \"j\": $1}"),
    ];
    // builtins of eval_builtin_function
    for (n, t) in [
        ("abs", "abs($0)"), ("sqrt", "sqrt($0)"), ("floor", "floor($0)"), ("ceil", "ceil($0)"), ("round", "round($0)"),
        ("log", "log($0)"), ("log10", "log10($0)"), ("exp", "exp($0)"), ("sin", "sin($0)"), ("cos", "cos($0)"), ("tan", "tan($0)"),
        ("len", "len($0)"), ("first", "first($0)"), ("last", "last($0)"), ("pop", "pop($0)"), ("reverse", "reverse($0)"),
        ("sort", "sort($0)"), ("keys", "keys($0)"), ("values", "values($0)"), ("sum", "sum($0)"), ("avg", "avg($0)"),
        ("to_string", "to_string($0)"), ("to_int", "to_int($0)"), ("to_float", "to_float($0)"), ("trim", "trim($0)"),
        ("lower", "lower($0)"), ("lowercase", "lowercase($0)"), ("upper", "upper($0)"), ("uppercase", "uppercase($0)"),
        ("type_of", "type_of($0)"), ("is_null", "is_null($0)"), ("is_int", "is_int($0)"), ("is_float", "is_float($0)"),
        ("is_string", "is_string($0)"), ("is_bool", "is_bool($0)"), ("is_array", "is_array($0)"), ("is_map", "is_map($0)"),
    ] {
        v.push(OpSpec { name: n, arity: 1, tpl: t });
    }
    for (n, t) in [
        ("pow-fn", "pow($0, $1)"), ("min", "min($0, $1)"), ("max", "max($0, $1)"), ("push", "push($0, $1)"),
        ("contains", "contains($0, $1)"), ("get", "get($0, $1)"), ("split", "split($0, $1)"), ("join", "join($0, $1)"),
        ("starts_with", "starts_with($0, $1)"), ("ends_with", "ends_with($0, $1)"), ("substring2", "substring($0, $1)"),
    ] {
        v.push(OpSpec { name: n, arity: 2, tpl: t });
    }
    for (n, t) in [("set", "set($0, $1, $2)"), ("replace", "replace($0, $1, $2)"), ("substring3", "substring($0, $1, $2)")] {
        v.push(OpSpec { name: n, arity: 3, tpl: t });
    }
    // range: sizes are excluded by the statement -> only a tiny constant range, with one boundary operand elsewhere
    v.push(op("range-small", 1, "len(range(0, 3)) + len(0..3) + len([$0])"));
    v
}

fn is_builtin(name: &str) -> bool {
    !matches!(
        name,
        "neg" | "not" | "bitnot" | "add" | "sub" | "mul" | "div" | "mod" | "pow" | "eq" | "ne" | "lt" | "le" | "gt" | "ge" | "in" | "not-in" | "is" | "and" | "or"
            | "bitor" | "bitxor" | "bitand" | "shl" | "shr" | "coalesce" | "index" | "slice-from" | "slice-to" | "slice" | "if" | "member" | "array-literal" | "map-literal" | "range-small"
    )
}

fn render(spec: &OpSpec, operands: &[String]) -> String {
    let mut t = spec.tpl.to_string();
    for (i, o) in operands.iter().enumerate() {
        t = t.replace(&format!("${}", i), o);
    }
    t
}

// ------------------------------------------------------------------------------------------------
// expression trees for the nested lane
// ------------------------------------------------------------------------------------------------
#[derive(Clone, Debug)]
enum X {
    Field(usize),
    Lit(&'static str),
    Op(usize, Vec<X>),
}
const FIELD_NAMES: [&str; 3] = ["a", "b", "c"];
const LITS: [&str; 18] = [
    "0", "1", "2", "-1", "9223372036854775807", "(-9223372036854775807 - 1)", "0.5", "1.0e308", "\"\"", "\"abc\"", "true", "null", "[1, 2]", "[]",
    "{\"k\": 1}", "5s", "63", "4611686018427387904",
];

impl X {
    fn txt(&self, specs: &[OpSpec]) -> String {
        match self {
            X::Field(i) => FIELD_NAMES[*i].to_string(),
            X::Lit(l) => l.to_string(),
            X::Op(k, ch) => {
                let operands: Vec<String> = ch
                    .iter()
                    .map(|c| match c {
                        X::Op(..) => format!("({})", c.txt(specs)),
                        _ => c.txt(specs),
                    })
                    .collect();
                render(&specs[*k], &operands)
            }
        }
    }
}

fn gen_x(rng: &mut Rng, depth: usize, specs: &[OpSpec], usable: &[usize]) -> X {
    if depth == 0 || rng.chance(1, 6) {
        return if rng.chance(3, 5) { X::Field(rng.below(3)) } else { X::Lit(LITS[rng.below(LITS.len())]) };
    }
    let k = *rng.pick(usable);
    let ch = (0..specs[k].arity).map(|_| gen_x(rng, depth - 1, specs, usable)).collect();
    X::Op(k, ch)
}

// ------------------------------------------------------------------------------------------------
// lanes
// ------------------------------------------------------------------------------------------------
fn site_of(loc: &str) -> String {
    let mut s = panic_site(loc);
    if let Some(i) = s.find("/library/") {
        s = s[i + 1..].to_string();
    }
    // strip ":line"
    match s.rsplit_once(':') {
        Some((f, l)) if l.chars().all(|c| c.is_ascii_digit()) => f.to_string(),
        _ => s,
    }
}

fn panic_kind(msg: &str) -> &'static str {
    if msg.contains("overflow") {
        "arith-overflow"
    } else if msg.contains("out of range") || msg.contains("out of bounds") || msg.contains("slice index") || msg.contains("byte index") || msg.contains("char boundary") {
        "index-or-slice"
    } else if msg.contains("total order") {
        "sort-total-order"
    } else if msg.contains("unwrap") || msg.contains("expect") {
        "unwrap"
    } else if msg.contains("divide by zero") || msg.contains("remainder with a divisor of zero") {
        "div-by-zero"
    } else {
        "other"
    }
}

/// Parse `stream M = E.emit(u: uid, r: <expr>)` with the real parser and pull the expression out.
/// Ok(None): the parser rejects the text. Err: the parser panicked.
fn parse_expr(text: &str) -> Result<Option<Expr>, String> {
    let src = format!("stream M = E.emit(u: uid, r: {})\n", text);
    let r = catch(std::panic::AssertUnwindSafe(|| varpulis_parser::parse(&src)));
    match r {
        Err(p) => Err(p),
        // parse() joins its parser thread and reports a panic in it as this parse error
        Ok(Err(e)) if format!("{}", e).contains("Parser stack overflow") => Err(format!("{}", e)),
        Ok(Err(_)) => Ok(None),
        Ok(Ok(prog)) => {
            for st in &prog.statements {
                if let Stmt::StreamDecl { ops, .. } = &st.node {
                    for o in ops {
                        if let StreamOp::Emit { fields, .. } = o {
                            for f in fields {
                                if f.name == "r" {
                                    return Ok(Some(f.value.clone()));
                                }
                            }
                        }
                    }
                }
            }
            Ok(None)
        }
    }
}

/// Result of handing one expression text to the real parser.
#[derive(Clone)]
enum Parsed {
    Ok(Expr),
    Rejected,
    Panicked(String),
}

/// Parse many expressions with ONE call of the real parser (`.emit(u: uid, r0: .., r1: .., ...)`): the parser
/// spawns a thread per call, which dominates the run time otherwise. If the batch as a whole is rejected or
/// the parser panics, every text is parsed on its own so that the verdict per text is exact.
fn parse_many(texts: &[String]) -> Vec<Parsed> {
    let single = |t: &String| match parse_expr(t) {
        Ok(Some(e)) => Parsed::Ok(e),
        Ok(None) => Parsed::Rejected,
        Err(p) => Parsed::Panicked(p),
    };
    if texts.len() == 1 {
        return vec![single(&texts[0])];
    }
    let fields: Vec<String> = texts.iter().enumerate().map(|(i, t)| format!("r{}: {}", i, t)).collect();
    let src = format!("stream M = E.emit(u: uid, {})\n", fields.join(", "));
    if let Ok(Ok(prog)) = catch(std::panic::AssertUnwindSafe(|| varpulis_parser::parse(&src))) {
        let mut out: Vec<Option<Expr>> = vec![None; texts.len()];
        for st in &prog.statements {
            if let Stmt::StreamDecl { ops, .. } = &st.node {
                for o in ops {
                    if let StreamOp::Emit { fields, .. } = o {
                        for f in fields {
                            if let Some(i) = f.name.strip_prefix('r').and_then(|x| x.parse::<usize>().ok()) {
                                if i < out.len() {
                                    out[i] = Some(f.value.clone());
                                }
                            }
                        }
                    }
                }
            }
        }
        if out.iter().all(|o| o.is_some()) {
            return out.into_iter().map(|o| Parsed::Ok(o.unwrap())).collect();
        }
    }
    texts.iter().map(single).collect()
}

/// The three engine programs with a placeholder expression, parsed once per thread; an expression that the
/// parser produced (see parse_many) is put in place of the placeholder, which gives exactly the program the
/// parser would have produced for the full text (the constant folder treats .where/.emit/.process alike).
struct Templates {
    wher: Program,
    emit: Program,
    process: Program,
}
impl Templates {
    fn new() -> Templates {
        let p = |l: Lane| varpulis_parser::parse(&l.program("424242")).expect("template program");
        Templates { wher: p(Lane::Where), emit: p(Lane::Emit), process: p(Lane::Process) }
    }
    fn program(&self, lane: Lane, expr: &Expr) -> Program {
        let mut p = match lane {
            Lane::Where => self.wher.clone(),
            Lane::Emit => self.emit.clone(),
            Lane::Process => self.process.clone(),
        };
        for st in p.statements.iter_mut() {
            if let Stmt::StreamDecl { ops, .. } = &mut st.node {
                for o in ops.iter_mut() {
                    match (lane, o) {
                        (Lane::Where, StreamOp::Where(e)) => *e = expr.clone(),
                        (Lane::Process, StreamOp::Process(e)) => *e = expr.clone(),
                        (Lane::Emit, StreamOp::Emit { fields, .. }) => {
                            for f in fields.iter_mut() {
                                if f.name == "r" {
                                    f.value = expr.clone();
                                }
                            }
                        }
                        _ => {}
                    }
                }
            }
        }
        p
    }
}

fn load_program(p: &Program) -> Option<Loaded> {
    catch(std::panic::AssertUnwindSafe(|| {
        let (tx, rx) = tokio::sync::mpsc::channel::<Event>(100_000);
        let mut engine = varpulis_runtime::engine::Engine::new(tx);
        engine.load(p).ok()?;
        Some(Loaded { engine, rx })
    }))
    .ok()
    .flatten()
}

fn mk_event(uid: i64, vals: &[&BV]) -> Event {
    let mut f: Vec<(&str, Value)> = vec![("uid", Value::Int(uid))];
    for (i, b) in vals.iter().enumerate() {
        if let Some(v) = &b.v {
            f.push((FIELD_NAMES[i], v.clone()));
        }
    }
    ev("E", ts_ms(uid), &f)
}

fn api_eval(expr: &Expr, e: &Event) -> Result<Option<Value>, (String, String)> {
    catch(std::panic::AssertUnwindSafe(|| eval_filter_expr(expr, e, SequenceContext::empty()))).map_err(|m| (m, site_of(&last_panic_location())))
}

#[derive(Clone, Copy, PartialEq, Eq, Debug)]
enum Lane {
    Where,
    Emit,
    Process,
}
impl Lane {
    fn name(&self) -> &'static str {
        match self {
            Lane::Where => "where",
            Lane::Emit => "emit",
            Lane::Process => "process",
        }
    }
    fn program(&self, text: &str) -> String {
        match self {
            Lane::Where => format!("stream W = E.where({}).emit(u: uid)\n", text),
            Lane::Emit => format!("stream M = E.emit(u: uid, r: {})\n", text),
            Lane::Process => format!("stream P = E.process({})\n", text),
        }
    }
}
const LANES: [Lane; 3] = [Lane::Where, Lane::Emit, Lane::Process];

/// One engine per (expression, lane); reloaded after a panic (its state is then suspect).
struct EngLane {
    lane: Lane,
    prog: Program,
    loaded: Option<Loaded>,
}
impl EngLane {
    fn new(lane: Lane, t: &Templates, expr: &Expr) -> EngLane {
        let prog = t.program(lane, expr);
        let loaded = load_program(&prog);
        EngLane { lane, prog, loaded }
    }
    /// Ok(()) processed; Err(Some(..)) panicked; Err(None) engine unavailable/returned an error
    fn feed(&mut self, rt: &tokio::runtime::Runtime, e: &Event) -> Result<(), Option<(String, String)>> {
        let Some(l) = self.loaded.as_mut() else {
            return Err(None);
        };
        let r = catch(std::panic::AssertUnwindSafe(|| {
            let r = rt.block_on(l.engine.process(e.clone()));
            l.drain();
            r
        }));
        match r {
            Ok(Ok(())) => Ok(()),
            Ok(Err(_)) => Err(None),
            Err(m) => {
                let site = site_of(&last_panic_location());
                self.loaded = load_program(&self.prog);
                Err(Some((m, site)))
            }
        }
    }
}

fn event_witness(vals: &[&BV]) -> J {
    let mut m = serde_json::Map::new();
    for (i, b) in vals.iter().enumerate() {
        m.insert(FIELD_NAMES[i].to_string(), json!(b.label));
    }
    J::Object(m)
}

fn event_values(vals: &[&BV]) -> J {
    let mut m = serde_json::Map::new();
    for (i, b) in vals.iter().enumerate() {
        m.insert(FIELD_NAMES[i].to_string(), match &b.v { Some(v) => json!(format!("{:?}", v)), None => json!("<field absent>") });
    }
    J::Object(m)
}

#[allow(clippy::too_many_arguments)]
fn report_panic(out: &mut Partial, opname: &str, types: &[&str], lane: &str, text: &str, culprit: Option<&str>, vals: &[&BV], msg: &str, site: &str) {
    let sig = format!("{}{}/{}/{}/{}", if is_builtin(opname) { "fn:" } else { "" }, opname, types.join(","), panic_kind(msg), site);
    out.add(&format!("panics_{}", lane), 1);
    out.violation(
        &sig,
        &format!("evaluating `{}` panicked: {}", culprit.unwrap_or(text), msg),
        json!({
            "lane": lane,
            "expression": text,
            "innermost_panicking_subexpression": culprit,
            "program": match lane { "where" => Lane::Where.program(text), "emit" => Lane::Emit.program(text), "process" => Lane::Process.program(text), _ => format!("eval_filter_expr(<parsed `{}`>, event, SequenceContext::empty())", text) },
            "event_fields": event_witness(vals),
            "event_field_values": event_values(vals),
            "panic": msg,
            "site": site,
        }),
    );
}

fn unit_text(spec: &OpSpec) -> String {
    let operands: Vec<String> = (0..spec.arity).map(|i| FIELD_NAMES[i].to_string()).collect();
    render(spec, &operands)
}

/// Unit lane: one operator, operands are the fields a, b, c.
fn run_unit(spec: &OpSpec, expr: &Expr, tuples: &[Vec<usize>], bvs: &[BV], tpl: &Templates, rt: &tokio::runtime::Runtime, out: &mut Partial) {
    let t0 = std::time::Instant::now();
    run_unit_inner(spec, expr, tuples, bvs, tpl, rt, out);
    if std::env::var("C11_PROFILE").is_ok() {
        out.add(&format!("us_{}", spec.name), t0.elapsed().as_micros() as u64);
    }
}

fn run_unit_inner(spec: &OpSpec, expr: &Expr, tuples: &[Vec<usize>], bvs: &[BV], tpl: &Templates, rt: &tokio::runtime::Runtime, out: &mut Partial) {
    let text = unit_text(spec);
    let mut lanes: Vec<EngLane> = LANES.iter().map(|l| EngLane::new(*l, tpl, expr)).collect();
    for l in &lanes {
        if l.loaded.is_none() {
            out.add("engine_programs_rejected", 1);
        }
    }
    for (ti, t) in tuples.iter().enumerate() {
        let vals: Vec<&BV> = t.iter().map(|i| &bvs[*i]).collect();
        let types: Vec<&str> = vals.iter().map(|b| type_of(&b.v)).collect();
        let e = mk_event(ti as i64 + 1, &vals);
        out.eval();
        out.nontrivial(&(spec.name, t.clone()));
        match api_eval(expr, &e) {
            Ok(v) => {
                if out.samples.len() < 2 && v.is_some() && ti % 7 == 3 {
                    out.sample(json!({"expression": text, "event_fields": event_witness(&vals), "value": v.as_ref().map(val_json)}));
                }
            }
            Err((m, site)) => report_panic(out, spec.name, &types, "api", &text, None, &vals, &m, &site),
        }
        for l in lanes.iter_mut() {
            out.eval();
            match l.feed(rt, &e) {
                Ok(()) => {}
                Err(None) => out.add("engine_feed_unavailable", 1),
                Err(Some((m, site))) => report_panic(out, spec.name, &types, l.lane.name(), &text, None, &vals, &m, &site),
            }
        }
    }
}

fn subtrees<'a>(x: &'a X, out: &mut Vec<&'a X>) {
    out.push(x);
    if let X::Op(_, ch) = x {
        for c in ch {
            subtrees(c, out);
        }
    }
}

/// Find the innermost sub-expression that panics on `e` while none of its operands does.
/// Returns (operator name, operand types, text of the culprit).
fn minimise(specs: &[OpSpec], x: &X, e: &Event) -> Option<(String, Vec<String>, String)> {
    let mut nodes = vec![];
    subtrees(x, &mut nodes);
    let texts: Vec<String> = nodes.iter().map(|n| n.txt(specs)).collect();
    let parsed = parse_many(&texts);
    // evaluation result per node: Some(Ok(type)) / Some(Err) panicked / None not evaluable
    let res: Vec<Option<Result<&'static str, ()>>> = parsed
        .iter()
        .map(|p| match p {
            Parsed::Ok(ex) => Some(api_eval(ex, e).map(|v| type_of(&v)).map_err(|_| ())),
            _ => None,
        })
        .collect();
    // innermost = last node in preorder that panics and whose children do not
    fn child_idx(nodes: &[&X], i: usize) -> Vec<usize> {
        let mut out = vec![];
        if let X::Op(_, ch) = nodes[i] {
            let mut k = i + 1;
            for c in ch {
                out.push(k);
                let mut v = vec![];
                subtrees(c, &mut v);
                k += v.len();
            }
        }
        out
    }
    for i in (0..nodes.len()).rev() {
        if res[i] == Some(Err(())) {
            let kids = child_idx(&nodes, i);
            if kids.iter().all(|k| res[*k] != Some(Err(()))) {
                let name = match nodes[i] {
                    X::Op(k, _) => specs[*k].name.to_string(),
                    _ => "leaf".to_string(),
                };
                let types = kids.iter().map(|k| match res[*k] { Some(Ok(t)) => t.to_string(), _ => "unknown".to_string() }).collect();
                return Some((name, types, texts[i].clone()));
            }
        }
    }
    None
}

fn run_nested(specs: &[OpSpec], x: &X, parsed: &Parsed, vals: &[&BV], uid: i64, tpl: &Templates, rt: &tokio::runtime::Runtime, out: &mut Partial) {
    let text = x.txt(specs);
    let expr = match parsed {
        Parsed::Ok(e) => e,
        Parsed::Rejected => {
            out.add("nested_expressions_rejected_by_parser", 1);
            return;
        }
        Parsed::Panicked(p) => {
            // a panic inside the parser (constant folder) is not an evaluation on an event: counted, not a C11 verdict
            out.add("parser_panics", 1);
            if out.counters.get("parser_panics").copied().unwrap_or(0) <= 2 {
                out.sample(json!({"parser_panicked_on": text, "panic": p}));
            }
            return;
        }
    };
    let e = mk_event(uid, vals);
    out.eval();
    out.add("nested_expressions", 1);
    let mut culprit: Option<(String, Vec<String>, String)> = None;
    if let Err((m, site)) = api_eval(expr, &e) {
        let (opname, types, ctext) = minimise(specs, x, &e).unwrap_or(("unminimised".to_string(), vec![], text.clone()));
        let tys: Vec<&str> = types.iter().map(|s| s.as_str()).collect();
        report_panic(out, &opname, &tys, "api", &text, Some(&ctext), vals, &m, &site);
        culprit = Some((opname, types, ctext));
    }
    for lane in LANES {
        out.eval();
        let mut l = EngLane::new(lane, tpl, expr);
        if l.loaded.is_none() {
            out.add("engine_programs_rejected", 1);
            continue;
        }
        if let Err(Some((m, site))) = l.feed(rt, &e) {
            match &culprit {
                Some((o, t, c)) => {
                    let tys: Vec<&str> = t.iter().map(|s| s.as_str()).collect();
                    report_panic(out, o, &tys, lane.name(), &text, Some(c), vals, &m, &site)
                }
                None => report_panic(out, &format!("engine-only-{}", lane.name()), &[], lane.name(), &text, None, vals, &m, &site),
            }
        }
    }
}

// ------------------------------------------------------------------------------------------------
// child-process lane for expression kinds without an evaluator arm (fatal stack overflow cannot be caught)
// ------------------------------------------------------------------------------------------------
const CHILD_CASES: [(&str, &str); 6] = [
    ("timestamp-literal", "@2024-01-01"),
    ("timestamp-literal-in-comparison", "a == @2024-01-01T00:00:00Z"),
    ("optional-member", "a?.k"),
    ("lambda", "x => x"),
    ("lambda-block", "x => { x }"),
    ("plain-control", "a + 1"),
];

fn child_main(lane: &str, text: &str) -> i32 {
    let text = text.to_string();
    let lane = lane.to_string();
    let h = std::thread::Builder::new().stack_size(2 << 20).spawn(move || {
        OURS.with(|o| o.set(true));
        let e = ev("E", ts_ms(1), &[("uid", Value::Int(1)), ("a", mk_map(vec![("k", Value::Int(1))]))]);
        let r = catch(std::panic::AssertUnwindSafe(|| {
            if lane == "api" {
                match parse_expr(&text) {
                    Ok(Some(x)) => {
                        let _ = eval_filter_expr(&x, &e, SequenceContext::empty());
                        0
                    }
                    _ => 4,
                }
            } else {
                let l = match lane.as_str() {
                    "where" => Lane::Where,
                    "emit" => Lane::Emit,
                    _ => Lane::Process,
                };
                let rt = rt();
                match load(&l.program(&text)) {
                    Ok(mut ld) => {
                        let _ = rt.block_on(ld.engine.process(e.clone()));
                        0
                    }
                    Err(_) => 4,
                }
            }
        }));
        match r {
            Ok(c) => c,
            Err(m) => {
                println!("CHILD-PANIC {} @ {}", m, site_of(&last_panic_location()));
                3
            }
        }
    });
    match h {
        Ok(j) => j.join().unwrap_or(5),
        Err(_) => 5,
    }
}

fn run_children() -> Partial {
    let mut part = Partial::default();
    let rep = &mut part;
    use std::process::{Command, Stdio};
    let exe = match std::env::current_exe() {
        Ok(e) => e,
        Err(e) => {
            rep.inconclusive(&format!("cannot locate own executable for the child lane: {}", e));
            return part;
        }
    };
    // start all children first (they are independent), then collect them one by one
    let mut started = vec![];
    for (kind, text) in CHILD_CASES {
        for lane in ["api", "where", "emit", "process"] {
            match Command::new(&exe).args(["--child", lane, text]).stdout(Stdio::piped()).stderr(Stdio::piped()).spawn() {
                Ok(c) => started.push((kind, text, lane, c)),
                Err(e) => {
                    rep.inconclusive(&format!("cannot spawn child: {}", e));
                    return part;
                }
            }
        }
    }
    {
        for (kind, text, lane, mut child) in started {
            rep.eval();
            // bounded wait: 60 s
            let t0 = std::time::Instant::now();
            let status = loop {
                match child.try_wait() {
                    Ok(Some(s)) => break Some(s),
                    Ok(None) => {
                        if t0.elapsed().as_secs() > 60 {
                            let _ = child.kill();
                            let _ = child.wait();
                            break None;
                        }
                        std::thread::sleep(std::time::Duration::from_millis(20));
                    }
                    Err(_) => break None,
                }
            };
            let mut so = String::new();
            let mut se = String::new();
            use std::io::Read;
            if let Some(mut o) = child.stdout.take() {
                let _ = o.read_to_string(&mut so);
            }
            if let Some(mut o) = child.stderr.take() {
                let _ = o.read_to_string(&mut se);
            }
            rep.add("child_runs", 1);
            let Some(status) = status else {
                rep.inconclusive(&format!("child for `{}` ({}) did not finish in 60 s (no verdict)", text, lane));
                continue;
            };
            match status.code() {
                Some(0) => {
                    if kind != "plain-control" {
                        rep.nontrivial(&("child", kind, lane));
                    }
                }
                Some(4) => rep.add("child_programs_rejected", 1),
                Some(3) => {
                    let line = so.lines().find(|l| l.starts_with("CHILD-PANIC")).unwrap_or("").to_string();
                    let site = line.rsplit_once(" @ ").map(|(_, s)| s.to_string()).unwrap_or_default();
                    rep.nontrivial(&("child", kind, lane));
                    rep.violation(&format!("expr:{}/panic/{}", kind, site), &format!("evaluating `{}` panicked", text), json!({"lane": lane, "expression": text, "program": if lane == "api" { json!(null) } else { json!(match lane { "where" => Lane::Where.program(text), "emit" => Lane::Emit.program(text), _ => Lane::Process.program(text) }) }, "child_stdout": line}));
                }
                other => {
                    rep.nontrivial(&("child", kind, lane));
                    if se.contains("overflowed its stack") {
                        rep.violation(
                            &format!("expr:{}/stack-overflow", kind),
                            &format!("evaluating `{}` recursed without bound and overflowed the stack (fatal abort, cannot be caught)", text),
                            json!({"lane": lane, "expression": text, "program": match lane { "where" => Lane::Where.program(text), "emit" => Lane::Emit.program(text), "process" => Lane::Process.program(text), _ => format!("eval_filter_expr(parse(`{}`), event, ..)", text) }, "event_fields": {"a": "map {k:1}"}, "child_exit": format!("{:?}", status), "child_stderr": se.lines().take(3).collect::<Vec<_>>()}),
                        );
                    } else {
                        rep.inconclusive(&format!("child for `{}` ({}) ended with {:?} (code {:?}) without a recognisable cause: {}", text, lane, status, other, se.lines().next().unwrap_or("")));
                    }
                }
            }
        }
    }
    part
}

thread_local! {
    /// true in threads started by this harness; the parser runs every parse in a thread of its own
    static OURS: std::cell::Cell<bool> = const { std::cell::Cell::new(false) };
}
static FOREIGN_PANICS: std::sync::atomic::AtomicU64 = std::sync::atomic::AtomicU64::new(0);

/// A panic inside the parser's own thread (constant folder) is turned by `parse()` into a parse error;
/// keep its message off stderr and count it.
fn install_foreign_thread_filter() {
    let prev = std::panic::take_hook();
    std::panic::set_hook(Box::new(move |info| {
        if OURS.with(|o| o.get()) {
            prev(info);
        } else {
            FOREIGN_PANICS.fetch_add(1, std::sync::atomic::Ordering::Relaxed);
        }
    }));
}

fn main() {
    let args = Args::parse();
    install_quiet_panic_hook();
    install_foreign_thread_filter();
    OURS.with(|o| o.set(true));
    if let Some(pos) = args.extra.iter().position(|a| a == "--child") {
        let lane = args.extra.get(pos + 1).cloned().unwrap_or_default();
        let text = args.extra.get(pos + 2).cloned().unwrap_or_default();
        std::process::exit(child_main(&lane, &text));
    }
    watchdog("C11", args.pick(900, 7200));
    let mut rep = Report::new("C11", "exploration", &args);
    rep.rule = "unit lane: every operator (unary, arithmetic, comparison, logical, bitwise, in/not in/is, ??, index, slices, if, member, array/map literal) and every builtin of eval_builtin_function, operands = event fields a,b,c holding every tuple (1- and 2-ary: exhaustive; 3-ary: sample, exhaustive in thorough) of ~60 boundary values (i64 extremes, -1, 0, 2^31/2^32/2^53+1, NaN, +-inf, 1e308, 5e-324, \"\", multi-byte strings, numeric-looking strings, null, missing, empty/nested/mixed/64-element arrays, maps, durations, timestamps), each through eval_filter_expr and through .where/.emit/.process in an engine; nested lane: random expressions of depth <=3 over the same operators, fields and boundary literals; child lane: expression kinds without an evaluator arm, in a child process. Non-trivial: evaluation that reached an operator/builtin with boundary operands; distinct by (operator, operand value tuple).".into();
    rep.assume("the harness binary is built with overflow-checks on (dev profile of /verif/harness), as a debug build of the product would be; `MIN / -1`, `MIN % -1` panic in every profile");
    rep.assume("a panic inside varpulis_parser::parse (constant folder) is counted as parser_panics, not as a C11 violation: the statement is about evaluating expressions the parser accepted");
    rep.assume("range sizes are excluded: range()/.. are only used with the constants 0 and 3");
    if let Some(text) = args.opt("--expr") {
        // debugging aid: c11 --expr "sort(a)" --a "array 40 floats, every 5th NaN" [--b <label>] [--c <label>]
        let bvs = boundary_values();
        let find = |k: &str| {
            let want = args.opt(k).unwrap_or_else(|| "missing".to_string());
            bvs.iter().find(|b| b.label == want).cloned().unwrap_or(BV { v: None, label: "missing".into() })
        };
        let (a, b, c) = (find("--a"), find("--b"), find("--c"));
        let vals = vec![&a, &b, &c];
        let e = mk_event(1, &vals);
        let tpl = Templates::new();
        let rt = rt();
        match parse_expr(&text) {
            Ok(Some(x)) => {
                println!("parsed: {:?}", x);
                println!("api: {:?}", api_eval(&x, &e).map(|v| v.map(|v| format!("{:?}", v))));
                for lane in LANES {
                    let mut l = EngLane::new(lane, &tpl, &x);
                    println!("{}: {:?}", lane.name(), l.feed(&rt, &e));
                }
            }
            other => println!("parser: {:?}", other.map(|_| "rejected")),
        }
        std::process::exit(0);
    }
    if let Some(path) = args.replay.clone() {
        let doc: J = serde_json::from_str(&std::fs::read_to_string(&path).expect("replay file")).expect("json");
        let w = &doc["witness"];
        let text = w["expression"].as_str().unwrap_or("").split("   [culprit").next().unwrap_or("").to_string();
        let bvs = boundary_values();
        let find = |k: &str| bvs.iter().find(|b| Some(b.label.as_str()) == w["event_fields"][k].as_str()).cloned().unwrap_or(BV { v: None, label: "missing".into() });
        let (a, b, c) = (find("a"), find("b"), find("c"));
        let vals = vec![&a, &b, &c];
        let e = mk_event(1, &vals);
        let r = parse_expr(&text).ok().flatten().map(|x| api_eval(&x, &e));
        println!("expression: {}\nevent: {}\napi lane now: {:?}", text, event_json(&e), r.map(|r| r.map(|v| v.as_ref().map(val_json))));
        std::process::exit(0);
    }
    // child lane runs beside the in-process lanes
    let children = std::thread::spawn(|| {
        OURS.with(|o| o.set(true));
        run_children()
    });
    let threads = ncpu();
    let thorough = args.thorough();
    let triples = args.pick(3000usize, 0usize);
    let nested = args.opt("--nested").and_then(|x| x.parse().ok()).unwrap_or(args.pick(8000usize, 400_000usize));
    let triples = args.opt("--triples").and_then(|x| x.parse().ok()).unwrap_or(triples);
    let seed = args.seed ^ 0xC11;
    // every operator template and the three engine program templates are parsed once, here
    let shared = Arc::new({
        let specs = ops();
        let texts: Vec<String> = specs.iter().map(unit_text).collect();
        let parsed = parse_many(&texts);
        (texts, parsed, Templates::new())
    });
    let sh = shared.clone();
    let parts = parallel(threads, seed, move |ti, _rng| {
        OURS.with(|o| o.set(true));
        let mut out = Partial::default();
        let rt = rt();
        let specs = ops();
        let bvs = boundary_values();
        let n = bvs.len();
        let (texts, parsed, tpl) = &*sh;
        let mut task = 0usize;
        for (k, spec) in specs.iter().enumerate() {
            let expr = match &parsed[k] {
                Parsed::Ok(e) => e,
                Parsed::Rejected => {
                    if ti == 0 {
                        out.add("unit_expressions_rejected_by_parser", 1);
                        out.sample(json!({"rejected_by_parser": texts[k]}));
                    }
                    continue;
                }
                Parsed::Panicked(p) => {
                    if ti == 0 {
                        out.add("parser_panics", 1);
                        out.sample(json!({"parser_panicked_on": texts[k], "panic": p}));
                    }
                    continue;
                }
            };
            match spec.arity {
                1 => {
                    task += 1;
                    if task % threads == ti {
                        let tuples: Vec<Vec<usize>> = (0..n).map(|i| vec![i]).collect();
                        run_unit(spec, expr, &tuples, &bvs, tpl, &rt, &mut out);
                    }
                }
                2 => {
                    // 4 chunks of first operands per operator
                    for c in 0..4 {
                        task += 1;
                        if task % threads == ti {
                            let mut tuples: Vec<Vec<usize>> = vec![];
                            for i in (0..n).filter(|i| i % 4 == c) {
                                for j in 0..n {
                                    tuples.push(vec![i, j]);
                                }
                            }
                            run_unit(spec, expr, &tuples, &bvs, tpl, &rt, &mut out);
                        }
                    }
                }
                _ => {
                    if thorough {
                        for i in 0..n {
                            task += 1;
                            if task % threads == ti {
                                let mut tuples = vec![];
                                for j in 0..n {
                                    for l in 0..n {
                                        tuples.push(vec![i, j, l]);
                                    }
                                }
                                run_unit(spec, expr, &tuples, &bvs, tpl, &rt, &mut out);
                            }
                        }
                    } else {
                        // sample; half of the time the first operand is a container/string (the types these operators act on)
                        let mut srng = Rng::new(seed).fork(0x3A21 + k as u64);
                        let containers: Vec<usize> = (0..n).filter(|i| matches!(type_of(&bvs[*i].v), "str" | "array" | "map" | "bool")).collect();
                        let mut all = vec![];
                        for _ in 0..triples {
                            let first = if srng.chance(1, 2) { *srng.pick(&containers) } else { srng.below(n) };
                            all.push(vec![first, srng.below(n), srng.below(n)]);
                        }
                        for chunk in all.chunks(500) {
                            task += 1;
                            if task % threads == ti {
                                run_unit(spec, expr, chunk, &bvs, tpl, &rt, &mut out);
                            }
                        }
                    }
                }
            }
        }
        if ti == 0 {
            out.add("boundary_values", n as u64);
            out.add("operators_and_builtins", specs.len() as u64);
        }
        out
    });
    // merge the unit lane first so that the stored witnesses per signature are the minimal ones
    rep.set("unit_lane_wall_s", json!(rep.start.elapsed().as_secs_f64()));
    for p in parts {
        rep.merge(p);
    }
    let sh = shared.clone();
    let parts = parallel(threads, seed ^ 0x2E57ED, move |_ti, mut rng| {
        OURS.with(|o| o.set(true));
        let mut out = Partial::default();
        let rt = rt();
        let specs = ops();
        let bvs = boundary_values();
        let n = bvs.len();
        let (_texts, parsed, tpl) = &*sh;
        // nested lane: batches of 40 expressions per parser call
        // operators whose plain template the parser rejects (counted above) are left out of the nested generator
        let usable: Vec<usize> = (0..specs.len()).filter(|k| specs[*k].name != "range-small" && matches!(parsed[*k], Parsed::Ok(_))).collect();
        let per_thread = nested / threads + 1;
        let mut done = 0usize;
        while done < per_thread {
            let m = 40.min(per_thread - done);
            let xs: Vec<X> = (0..m)
                .map(|_| {
                    let depth = 2 + rng.below(2);
                    gen_x(&mut rng, depth, &specs, &usable)
                })
                .collect();
            let texts: Vec<String> = xs.iter().map(|x| x.txt(&specs)).collect();
            let parsed = parse_many(&texts);
            out.add("parser_calls_nested", 1);
            for (i, x) in xs.iter().enumerate() {
                let picks: Vec<usize> = (0..3).map(|_| rng.below(n)).collect();
                let vals: Vec<&BV> = picks.iter().map(|p| &bvs[*p]).collect();
                run_nested(&specs, x, &parsed[i], &vals, (done + i) as i64 + 1, tpl, &rt, &mut out);
            }
            done += m;
        }
        out
    });
    rep.set("unit_plus_nested_wall_s", json!(rep.start.elapsed().as_secs_f64()));
    rep.add("panics_inside_parser_threads", FOREIGN_PANICS.load(std::sync::atomic::Ordering::Relaxed));
    match children.join() {
        Ok(p) => {
            rep.set("all_lanes_wall_s", json!(rep.start.elapsed().as_secs_f64()));
            rep.merge(p)
        }
        Err(_) => rep.inconclusive("child lane thread failed"),
    }
    for p in parts {
        rep.merge(p);
    }
    std::process::exit(rep.finish());
}
