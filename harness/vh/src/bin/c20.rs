//! C20 — checkpoints survive serialisation unchanged.
//! Monitor: every checkpoint (harvested from real engines at random cuts, or synthesised around
//! events with hostile values) goes through `codec::serialize(Json)` -> `codec::deserialize`
//! (auto-detect, also with leading whitespace). Oracle: both calls succeed; the result is the same
//! checkpoint (compared through an independent canonical tree built by a harness-side serde
//! Serializer — not serde_json — with NaN==NaN); every event restored from the read-back checkpoint
//! (`Event::from(SerializableEvent)`) equals the original `Event` it was made from: same type, same
//! timestamp to the nanosecond, same fields with the same values.
use chrono::{DateTime, Utc};
use serde::ser::{self, Serialize};
use serde_json::{json, Value as J};
use std::collections::{BTreeMap, HashMap};
use std::fmt;
use varpulis_core::Value;
use varpulis_runtime::codec::{self, CheckpointFormat};
use varpulis_runtime::event::Event;
use varpulis_runtime::persistence::*;
use vh::eng::*;
use vh::*;
#[path = "../proggen.rs"]
mod proggen;
use proggen::*;

// ---------------------------------------------------------------------------
// Canonical tree (independent structural form of anything `Serialize`)
// ---------------------------------------------------------------------------
#[derive(Clone, Debug)]
enum Canon {
    Unit,
    Bool(bool),
    Int(i128),
    Float(f64),
    Str(String),
    Seq(Vec<Canon>),
    /// struct fields (`true`) or map entries (`false`), sorted by key
    Map(bool, Vec<(String, Canon)>),
    Variant(String, Box<Canon>),
}

#[derive(Debug)]
struct CErr(String);
impl fmt::Display for CErr {
    fn fmt(&self, f: &mut fmt::Formatter<'_>) -> fmt::Result {
        write!(f, "{}", self.0)
    }
}
impl std::error::Error for CErr {}
impl ser::Error for CErr {
    fn custom<T: fmt::Display>(msg: T) -> Self {
        CErr(msg.to_string())
    }
}

struct CSer;
struct SeqB(Vec<Canon>, Option<String>);
struct MapB(bool, Vec<(String, Canon)>, Option<String>, Option<String>);

fn key_string(c: &Canon) -> String {
    match c {
        Canon::Str(s) => s.clone(),
        other => format!("{:?}", other),
    }
}

impl ser::Serializer for CSer {
    type Ok = Canon;
    type Error = CErr;
    type SerializeSeq = SeqB;
    type SerializeTuple = SeqB;
    type SerializeTupleStruct = SeqB;
    type SerializeTupleVariant = SeqB;
    type SerializeMap = MapB;
    type SerializeStruct = MapB;
    type SerializeStructVariant = MapB;
    fn serialize_bool(self, v: bool) -> Result<Canon, CErr> { Ok(Canon::Bool(v)) }
    fn serialize_i8(self, v: i8) -> Result<Canon, CErr> { Ok(Canon::Int(v as i128)) }
    fn serialize_i16(self, v: i16) -> Result<Canon, CErr> { Ok(Canon::Int(v as i128)) }
    fn serialize_i32(self, v: i32) -> Result<Canon, CErr> { Ok(Canon::Int(v as i128)) }
    fn serialize_i64(self, v: i64) -> Result<Canon, CErr> { Ok(Canon::Int(v as i128)) }
    fn serialize_u8(self, v: u8) -> Result<Canon, CErr> { Ok(Canon::Int(v as i128)) }
    fn serialize_u16(self, v: u16) -> Result<Canon, CErr> { Ok(Canon::Int(v as i128)) }
    fn serialize_u32(self, v: u32) -> Result<Canon, CErr> { Ok(Canon::Int(v as i128)) }
    fn serialize_u64(self, v: u64) -> Result<Canon, CErr> { Ok(Canon::Int(v as i128)) }
    fn serialize_f32(self, v: f32) -> Result<Canon, CErr> { Ok(Canon::Float(v as f64)) }
    fn serialize_f64(self, v: f64) -> Result<Canon, CErr> { Ok(Canon::Float(v)) }
    fn serialize_char(self, v: char) -> Result<Canon, CErr> { Ok(Canon::Str(v.to_string())) }
    fn serialize_str(self, v: &str) -> Result<Canon, CErr> { Ok(Canon::Str(v.to_string())) }
    fn serialize_bytes(self, v: &[u8]) -> Result<Canon, CErr> { Ok(Canon::Seq(v.iter().map(|b| Canon::Int(*b as i128)).collect())) }
    fn serialize_none(self) -> Result<Canon, CErr> { Ok(Canon::Unit) }
    fn serialize_some<T: ?Sized + Serialize>(self, v: &T) -> Result<Canon, CErr> { Ok(Canon::Variant("Some".into(), Box::new(v.serialize(CSer)?))) }
    fn serialize_unit(self) -> Result<Canon, CErr> { Ok(Canon::Unit) }
    fn serialize_unit_struct(self, _n: &'static str) -> Result<Canon, CErr> { Ok(Canon::Unit) }
    fn serialize_unit_variant(self, _n: &'static str, _i: u32, variant: &'static str) -> Result<Canon, CErr> { Ok(Canon::Variant(variant.into(), Box::new(Canon::Unit))) }
    fn serialize_newtype_struct<T: ?Sized + Serialize>(self, _n: &'static str, v: &T) -> Result<Canon, CErr> { v.serialize(CSer) }
    fn serialize_newtype_variant<T: ?Sized + Serialize>(self, _n: &'static str, _i: u32, variant: &'static str, v: &T) -> Result<Canon, CErr> { Ok(Canon::Variant(variant.into(), Box::new(v.serialize(CSer)?))) }
    fn serialize_seq(self, _len: Option<usize>) -> Result<SeqB, CErr> { Ok(SeqB(vec![], None)) }
    fn serialize_tuple(self, _len: usize) -> Result<SeqB, CErr> { Ok(SeqB(vec![], None)) }
    fn serialize_tuple_struct(self, _n: &'static str, _len: usize) -> Result<SeqB, CErr> { Ok(SeqB(vec![], None)) }
    fn serialize_tuple_variant(self, _n: &'static str, _i: u32, variant: &'static str, _len: usize) -> Result<SeqB, CErr> { Ok(SeqB(vec![], Some(variant.into()))) }
    fn serialize_map(self, _len: Option<usize>) -> Result<MapB, CErr> { Ok(MapB(false, vec![], None, None)) }
    fn serialize_struct(self, _n: &'static str, _len: usize) -> Result<MapB, CErr> { Ok(MapB(true, vec![], None, None)) }
    fn serialize_struct_variant(self, _n: &'static str, _i: u32, variant: &'static str, _len: usize) -> Result<MapB, CErr> { Ok(MapB(true, vec![], None, Some(variant.into()))) }
}
impl SeqB {
    fn done(self) -> Canon {
        match self.1 {
            Some(v) => Canon::Variant(v, Box::new(Canon::Seq(self.0))),
            None => Canon::Seq(self.0),
        }
    }
}
impl ser::SerializeSeq for SeqB {
    type Ok = Canon;
    type Error = CErr;
    fn serialize_element<T: ?Sized + Serialize>(&mut self, v: &T) -> Result<(), CErr> { self.0.push(v.serialize(CSer)?); Ok(()) }
    fn end(self) -> Result<Canon, CErr> { Ok(self.done()) }
}
impl ser::SerializeTuple for SeqB {
    type Ok = Canon;
    type Error = CErr;
    fn serialize_element<T: ?Sized + Serialize>(&mut self, v: &T) -> Result<(), CErr> { self.0.push(v.serialize(CSer)?); Ok(()) }
    fn end(self) -> Result<Canon, CErr> { Ok(self.done()) }
}
impl ser::SerializeTupleStruct for SeqB {
    type Ok = Canon;
    type Error = CErr;
    fn serialize_field<T: ?Sized + Serialize>(&mut self, v: &T) -> Result<(), CErr> { self.0.push(v.serialize(CSer)?); Ok(()) }
    fn end(self) -> Result<Canon, CErr> { Ok(self.done()) }
}
impl ser::SerializeTupleVariant for SeqB {
    type Ok = Canon;
    type Error = CErr;
    fn serialize_field<T: ?Sized + Serialize>(&mut self, v: &T) -> Result<(), CErr> { self.0.push(v.serialize(CSer)?); Ok(()) }
    fn end(self) -> Result<Canon, CErr> { Ok(self.done()) }
}
impl MapB {
    fn done(mut self) -> Canon {
        self.1.sort_by(|a, b| a.0.cmp(&b.0));
        let m = Canon::Map(self.0, self.1);
        match self.3 {
            Some(v) => Canon::Variant(v, Box::new(m)),
            None => m,
        }
    }
}
impl ser::SerializeMap for MapB {
    type Ok = Canon;
    type Error = CErr;
    fn serialize_key<T: ?Sized + Serialize>(&mut self, k: &T) -> Result<(), CErr> { self.2 = Some(key_string(&k.serialize(CSer)?)); Ok(()) }
    fn serialize_value<T: ?Sized + Serialize>(&mut self, v: &T) -> Result<(), CErr> {
        let k = self.2.take().unwrap_or_default();
        self.1.push((k, v.serialize(CSer)?));
        Ok(())
    }
    fn end(self) -> Result<Canon, CErr> { Ok(self.done()) }
}
impl ser::SerializeStruct for MapB {
    type Ok = Canon;
    type Error = CErr;
    fn serialize_field<T: ?Sized + Serialize>(&mut self, k: &'static str, v: &T) -> Result<(), CErr> { self.1.push((k.to_string(), v.serialize(CSer)?)); Ok(()) }
    fn end(self) -> Result<Canon, CErr> { Ok(self.done()) }
}
impl ser::SerializeStructVariant for MapB {
    type Ok = Canon;
    type Error = CErr;
    fn serialize_field<T: ?Sized + Serialize>(&mut self, k: &'static str, v: &T) -> Result<(), CErr> { self.1.push((k.to_string(), v.serialize(CSer)?)); Ok(()) }
    fn end(self) -> Result<Canon, CErr> { Ok(self.done()) }
}

fn canon<T: Serialize>(t: &T) -> Canon {
    t.serialize(CSer).expect("canonical serializer cannot fail")
}

fn feq(a: f64, b: f64) -> bool {
    (a.is_nan() && b.is_nan()) || a == b
}

#[derive(Debug, Clone)]
struct Diff {
    /// struct-field names only (finite), e.g. window_states.events.fields
    skeleton: Vec<String>,
    /// full path with keys and indices (for the witness)
    path: Vec<String>,
    /// innermost enum variant around the difference (e.g. Float) or the primitive kind
    leaf: String,
    a: String,
    b: String,
}

fn short(c: &Canon) -> String {
    let s = format!("{:?}", c);
    if s.len() > 300 { format!("{}…", s.chars().take(300).collect::<String>()) } else { s }
}

fn diff(a: &Canon, b: &Canon, skel: &mut Vec<String>, path: &mut Vec<String>, variant: &str) -> Option<Diff> {
    let mk = |leaf: &str, skel: &Vec<String>, path: &Vec<String>| Diff { skeleton: skel.clone(), path: path.clone(), leaf: leaf.to_string(), a: short(a), b: short(b) };
    match (a, b) {
        (Canon::Unit, Canon::Unit) => None,
        (Canon::Bool(x), Canon::Bool(y)) => if x == y { None } else { Some(mk(if variant.is_empty() { "bool" } else { variant }, skel, path)) },
        (Canon::Int(x), Canon::Int(y)) => if x == y { None } else { Some(mk(if variant.is_empty() { "int" } else { variant }, skel, path)) },
        (Canon::Float(x), Canon::Float(y)) => if feq(*x, *y) { None } else { Some(mk(if variant.is_empty() { "float" } else { variant }, skel, path)) },
        (Canon::Str(x), Canon::Str(y)) => if x == y { None } else { Some(mk(if variant.is_empty() { "string" } else { variant }, skel, path)) },
        (Canon::Seq(x), Canon::Seq(y)) => {
            if x.len() != y.len() {
                return Some(mk(&format!("{}length", if variant.is_empty() { String::new() } else { format!("{}-", variant) }), skel, path));
            }
            for (i, (p, q)) in x.iter().zip(y.iter()).enumerate() {
                path.push(format!("[{}]", i));
                let d = diff(p, q, skel, path, variant);
                path.pop();
                if d.is_some() {
                    return d;
                }
            }
            None
        }
        (Canon::Map(sa, x), Canon::Map(_, y)) => {
            let kx: Vec<&String> = x.iter().map(|e| &e.0).collect();
            let ky: Vec<&String> = y.iter().map(|e| &e.0).collect();
            if kx != ky {
                return Some(mk("key-set", skel, path));
            }
            for ((k, p), (_, q)) in x.iter().zip(y.iter()) {
                if *sa {
                    skel.push(k.clone());
                }
                path.push(k.clone());
                let d = diff(p, q, skel, path, if *sa { "" } else { variant });
                path.pop();
                if *sa {
                    skel.pop();
                }
                if d.is_some() {
                    return d;
                }
            }
            None
        }
        (Canon::Variant(va, x), Canon::Variant(vb, y)) => {
            if va != vb {
                return Some(mk(&format!("variant-{}-became-{}", va, vb), skel, path));
            }
            diff(x, y, skel, path, if va == "Some" { variant } else { va })
        }
        _ => Some(mk("shape", skel, path)),
    }
}

// ---------------------------------------------------------------------------
// Walking the events / values held by a checkpoint
// ---------------------------------------------------------------------------
fn sorted<'a, V>(m: &'a HashMap<String, V>) -> Vec<(&'a String, &'a V)> {
    let mut v: Vec<_> = m.iter().collect();
    v.sort_by(|a, b| a.0.cmp(b.0));
    v
}

fn walk_window<'a>(w: &'a WindowCheckpoint, p: &str, out: &mut Vec<(String, &'a SerializableEvent)>) {
    for (i, e) in w.events.iter().enumerate() {
        out.push((format!("{}/events/{}", p, i), e));
    }
    for (k, pw) in sorted(&w.partitions) {
        for (i, e) in pw.events.iter().enumerate() {
            out.push((format!("{}/partitions/{}/events/{}", p, k, i), e));
        }
    }
}

fn walk_run<'a>(r: &'a RunCheckpoint, p: &str, out: &mut Vec<(String, &'a SerializableEvent)>) {
    for (i, s) in r.stack.iter().enumerate() {
        out.push((format!("{}/stack/{}", p, i), &s.event));
    }
    for (k, e) in sorted(&r.captured) {
        out.push((format!("{}/captured/{}", p, k), e));
    }
    if let Some(ks) = &r.kleene_events {
        for (i, e) in ks.iter().enumerate() {
            out.push((format!("{}/kleene_events/{}", p, i), e));
        }
    }
}

fn walk_engine<'a>(cp: &'a EngineCheckpoint, p: &str, out: &mut Vec<(String, &'a SerializableEvent)>) {
    for (n, w) in sorted(&cp.window_states) {
        walk_window(w, &format!("{}window_states/{}", p, n), out);
    }
    for (n, s) in sorted(&cp.sase_states) {
        for (i, r) in s.active_runs.iter().enumerate() {
            walk_run(r, &format!("{}sase_states/{}/active_runs/{}", p, n, i), out);
        }
        for (k, rs) in sorted(&s.partitioned_runs) {
            for (i, r) in rs.iter().enumerate() {
                walk_run(r, &format!("{}sase_states/{}/partitioned_runs/{}/{}", p, n, k, i), out);
            }
        }
    }
    for (n, j) in sorted(&cp.join_states) {
        for (src, byk) in sorted(&j.buffers) {
            for (k, es) in sorted(byk) {
                for (i, (_, e)) in es.iter().enumerate() {
                    out.push((format!("{}join_states/{}/buffers/{}/{}/{}", p, n, src, k, i), e));
                }
            }
        }
    }
}

fn walk_outer<'a>(cp: &'a Checkpoint, out: &mut Vec<(String, &'a SerializableEvent)>) {
    for (n, w) in sorted(&cp.window_states) {
        walk_window(w, &format!("window_states/{}", n), out);
    }
    for (n, ps) in sorted(&cp.pattern_states) {
        for (i, pm) in ps.partial_matches.iter().enumerate() {
            for (j, e) in pm.matched_events.iter().enumerate() {
                out.push((format!("pattern_states/{}/partial_matches/{}/matched_events/{}", n, i, j), e));
            }
        }
    }
    for (n, e) in sorted(&cp.context_states) {
        walk_engine(e, &format!("context_states/{}/", n), out);
    }
}

/// Loose values (not inside an event): variables and partition keys.
fn loose_values<'a>(cp: &'a EngineCheckpoint, out: &mut Vec<&'a SerializableValue>) {
    for (_, v) in sorted(&cp.variables) {
        out.push(v);
    }
    for (_, s) in sorted(&cp.sase_states) {
        for r in s.active_runs.iter().chain(s.partitioned_runs.values().flatten()) {
            if let Some(k) = &r.partition_key {
                out.push(k);
            }
        }
    }
}

enum AnyCp {
    Engine(EngineCheckpoint),
    Outer(Checkpoint),
}

impl AnyCp {
    fn events(&self) -> Vec<(String, &SerializableEvent)> {
        let mut v = vec![];
        match self {
            AnyCp::Engine(c) => walk_engine(c, "", &mut v),
            AnyCp::Outer(c) => walk_outer(c, &mut v),
        }
        v
    }
    fn values(&self) -> Vec<&SerializableValue> {
        let mut vals = vec![];
        for (_, e) in self.events() {
            let mut fs: Vec<_> = e.fields.iter().collect();
            fs.sort_by(|a, b| a.0.cmp(b.0));
            for (_, v) in fs {
                vals.push(v);
            }
        }
        match self {
            AnyCp::Engine(c) => loose_values(c, &mut vals),
            AnyCp::Outer(c) => {
                for (_, e) in sorted(&c.context_states) {
                    loose_values(e, &mut vals);
                }
            }
        }
        vals
    }
    fn canon(&self) -> Canon {
        match self {
            AnyCp::Engine(c) => canon(c),
            AnyCp::Outer(c) => canon(c),
        }
    }
    fn ser(&self) -> Result<Vec<u8>, StoreError> {
        match self {
            AnyCp::Engine(c) => codec::serialize(c, CheckpointFormat::Json),
            AnyCp::Outer(c) => codec::serialize(c, CheckpointFormat::Json),
        }
    }
    fn de(&self, data: &[u8]) -> Result<AnyCp, StoreError> {
        match self {
            AnyCp::Engine(_) => codec::deserialize::<EngineCheckpoint>(data).map(AnyCp::Engine),
            AnyCp::Outer(_) => codec::deserialize::<Checkpoint>(data).map(AnyCp::Outer),
        }
    }
    fn type_name(&self) -> &'static str {
        match self {
            AnyCp::Engine(_) => "EngineCheckpoint",
            AnyCp::Outer(_) => "Checkpoint",
        }
    }
}

fn empty_engine_cp() -> EngineCheckpoint {
    EngineCheckpoint {
        version: CHECKPOINT_VERSION,
        window_states: HashMap::new(),
        sase_states: HashMap::new(),
        join_states: HashMap::new(),
        variables: HashMap::new(),
        events_processed: 0,
        output_events_emitted: 0,
        watermark_state: None,
        distinct_states: HashMap::new(),
        limit_states: HashMap::new(),
    }
}

// ---------------------------------------------------------------------------
// Value classes (finite) and attribution of a codec failure to a value class
// ---------------------------------------------------------------------------
fn sv_depth(v: &SerializableValue) -> usize {
    match v {
        SerializableValue::Array(a) => 1 + a.iter().map(sv_depth).max().unwrap_or(0),
        SerializableValue::Map(m) => 1 + m.iter().map(|(_, x)| sv_depth(x)).max().unwrap_or(0),
        _ => 0,
    }
}

fn sv_class(v: &SerializableValue) -> &'static str {
    match v {
        SerializableValue::Int(_) => "int",
        SerializableValue::Float(f) if f.is_nan() => "float-nan",
        SerializableValue::Float(f) if *f == f64::INFINITY => "float-pos-inf",
        SerializableValue::Float(f) if *f == f64::NEG_INFINITY => "float-neg-inf",
        SerializableValue::Float(_) => "float-finite",
        SerializableValue::Bool(_) => "bool",
        SerializableValue::String(_) => "string",
        SerializableValue::Null => "null",
        SerializableValue::Timestamp(_) => "timestamp",
        SerializableValue::Duration(_) => "duration",
        SerializableValue::Array(_) => if sv_depth(v) >= 32 { "array-nested-32-plus-levels" } else { "array" },
        SerializableValue::Map(_) => if sv_depth(v) >= 32 { "map-nested-32-plus-levels" } else { "map" },
    }
}

/// Round-trips one value alone (as the only variable of an otherwise empty EngineCheckpoint).
/// Returns the failure kind, if any.
fn value_alone_fails(v: &SerializableValue) -> Option<&'static str> {
    let mut cp = empty_engine_cp();
    cp.variables.insert("v".into(), v.clone());
    let bytes = match codec::serialize(&cp, CheckpointFormat::Json) {
        Ok(b) => b,
        Err(_) => return Some("serialize-error"),
    };
    match codec::deserialize::<EngineCheckpoint>(&bytes) {
        Ok(back) => {
            let mut s = vec![];
            let mut p = vec![];
            if diff(&canon(&cp), &canon(&back), &mut s, &mut p, "").is_some() { Some("not-equal") } else { None }
        }
        Err(_) => Some("deserialize-error"),
    }
}

/// Classes of the minimal sub-values that fail on their own with failure kind `kind`.
fn minimal_failing(v: &SerializableValue, kind: &str, out: &mut BTreeMap<&'static str, SerializableValue>) -> bool {
    if value_alone_fails(v).map(|k| k == kind) != Some(true) {
        return false;
    }
    let mut child_failed = false;
    match v {
        SerializableValue::Array(a) => {
            for c in a {
                child_failed |= minimal_failing(c, kind, out);
            }
        }
        SerializableValue::Map(m) => {
            for (_, c) in m {
                child_failed |= minimal_failing(c, kind, out);
            }
        }
        _ => {}
    }
    if !child_failed {
        out.entry(sv_class(v)).or_insert_with(|| v.clone());
    }
    true
}

fn sv_json(v: &SerializableValue) -> J {
    let s = format!("{:?}", v);
    json!(if s.len() > 400 { format!("{}… ({} chars)", s.chars().take(400).collect::<String>(), s.len()) } else { s })
}

// ---------------------------------------------------------------------------
// Comparison of a restored event with its original (own comparison, not Value::eq)
// ---------------------------------------------------------------------------
fn val_class(v: &Value) -> &'static str {
    match v {
        Value::Null => "null",
        Value::Bool(_) => "bool",
        Value::Int(_) => "int",
        Value::Float(f) if f.is_nan() => "float-nan",
        Value::Float(f) if f.is_infinite() => if *f > 0.0 { "float-pos-inf" } else { "float-neg-inf" },
        Value::Float(_) => "float-finite",
        Value::Str(_) => "string",
        Value::Timestamp(_) => "timestamp",
        Value::Duration(_) => "duration",
        Value::Array(_) => "array",
        Value::Map(_) => "map",
    }
}

/// None = equal; Some(aspect) = first difference.
fn val_diff(a: &Value, b: &Value) -> Option<String> {
    match (a, b) {
        (Value::Null, Value::Null) => None,
        (Value::Bool(x), Value::Bool(y)) if x == y => None,
        (Value::Int(x), Value::Int(y)) if x == y => None,
        (Value::Float(x), Value::Float(y)) if feq(*x, *y) => None,
        (Value::Str(x), Value::Str(y)) if x == y => None,
        (Value::Timestamp(x), Value::Timestamp(y)) if x == y => None,
        (Value::Duration(x), Value::Duration(y)) if x == y => None,
        (Value::Array(x), Value::Array(y)) => {
            if x.len() != y.len() {
                return Some("array-length".into());
            }
            x.iter().zip(y.iter()).find_map(|(p, q)| val_diff(p, q))
        }
        (Value::Map(x), Value::Map(y)) => {
            if x.len() != y.len() {
                return Some("map-size".into());
            }
            for (k, p) in x.iter() {
                match y.get(k) {
                    None => return Some("map-key-lost".into()),
                    Some(q) => {
                        if let Some(d) = val_diff(p, q) {
                            return Some(d);
                        }
                    }
                }
            }
            // same entries: nested maps are ordered (IndexMap / Vec of pairs) — order is part of the value
            if x.keys().zip(y.keys()).any(|(p, q)| p != q) {
                return Some("map-entry-order".into());
            }
            None
        }
        _ => {
            if val_class(a) == val_class(b) {
                Some(val_class(a).to_string())
            } else {
                Some(format!("{}-became-{}", val_class(a), val_class(b)))
            }
        }
    }
}

fn ts_text(t: &DateTime<Utc>) -> String {
    t.to_rfc3339_opts(chrono::SecondsFormat::Nanos, true)
}

fn val_text(v: &Value) -> String {
    let s = format!("{:?}", v);
    if s.len() > 300 { format!("{}…", s.chars().take(300).collect::<String>()) } else { s }
}

fn event_full_json(e: &Event) -> J {
    let mut m = serde_json::Map::new();
    for (k, v) in e.data.iter() {
        m.insert(k.to_string(), json!(val_text(v)));
    }
    json!({"type": e.event_type.to_string(), "timestamp": ts_text(&e.timestamp), "fields": J::Object(m)})
}

/// Compare a restored event with the original; reports through `out`. `ctx` goes into the witness.
fn compare_restored(orig: &Event, restored: &Event, ctx: &J, out: &mut Partial) {
    out.add("restored_events_compared", 1);
    let w = |what: &str| json!({"context": ctx, "difference": what, "original_event": event_full_json(orig), "restored_event": event_full_json(restored),
        "how": "SerializableEvent::from(&original) placed in the checkpoint -> codec::serialize(Json) -> codec::deserialize -> Event::from(SerializableEvent)"});
    if orig.event_type != restored.event_type {
        out.violation("restored-event:type/not-equal", "restored event has a different event type", w("event_type"));
    }
    if orig.timestamp != restored.timestamp {
        let sub_ms = orig.timestamp.timestamp_subsec_nanos() % 1_000_000 != 0;
        if sub_ms {
            out.violation("restored-event:timestamp-sub-millisecond/not-equal", "event timestamp with sub-millisecond precision is not restored exactly (SerializableEvent keeps timestamp_ms only)", w("timestamp"));
        } else {
            out.violation("restored-event:timestamp-ms-aligned/not-equal", "millisecond-aligned event timestamp is not restored exactly", w("timestamp"));
        }
    } else if orig.timestamp.timestamp_subsec_nanos() % 1_000_000 != 0 {
        out.add("sub_ms_timestamps_restored_exactly", 1);
    }
    for (k, v) in orig.data.iter() {
        match restored.data.get(k) {
            None => out.violation("restored-event:field-lost/not-equal", "a field of the original event is missing after restore", w(&format!("field {:?} missing", k))),
            Some(r) => {
                if let Some(aspect) = val_diff(v, r) {
                    out.violation(&format!("restored-event:field-{}/not-equal", aspect), "a field value differs after restore", w(&format!("field {:?}: {}", k, aspect)));
                }
            }
        }
    }
    for k in restored.data.keys() {
        if !orig.data.contains_key(k) {
            out.violation("restored-event:field-added/not-equal", "restored event has a field the original did not have", w(&format!("field {:?} added", k)));
        }
    }
    if orig.data.keys().zip(restored.data.keys()).any(|(a, b)| a != b) {
        out.add("restored_events_with_top_level_field_order_changed(not judged)", 1);
    }
}

// ---------------------------------------------------------------------------
// The check of one checkpoint
// ---------------------------------------------------------------------------
struct Case<'a> {
    cp: AnyCp,
    /// uid -> original event (events of the checkpoint carrying this uid and `marker` are compared)
    originals: &'a HashMap<i64, Event>,
    /// only events whose type is in this set are paired with originals (None = all)
    pair_types: Option<&'a [&'a str]>,
    lane: &'static str,
    context: J,
}

fn uid_of(se: &SerializableEvent) -> Option<i64> {
    match se.fields.get("uid") {
        Some(SerializableValue::Int(i)) => Some(*i),
        _ => None,
    }
}

fn attribute(case: &Case, kind: &'static str, err: &str, out: &mut Partial) {
    let mut classes: BTreeMap<&'static str, SerializableValue> = BTreeMap::new();
    for v in case.cp.values() {
        minimal_failing(v, kind, &mut classes);
    }
    let what = match kind {
        "serialize-error" => "codec::serialize(Json) fails on a checkpoint",
        "deserialize-error" => "codec::deserialize cannot read back what codec::serialize(Json) wrote",
        _ => "checkpoint differs after the codec round trip",
    };
    if classes.is_empty() {
        out.violation(&format!("component:whole-{}/{}", case.cp.type_name(), kind), what, json!({"lane": case.lane, "context": case.context, "error": err, "note": "no single value of the checkpoint fails on its own"}));
        return;
    }
    for (class, example) in classes {
        // minimal witness: this value alone as an engine variable
        let mut cp = empty_engine_cp();
        cp.variables.insert("v".into(), example.clone());
        let bytes = codec::serialize(&cp, CheckpointFormat::Json).map(|b| String::from_utf8_lossy(&b).to_string()).unwrap_or_else(|e| format!("serialize error: {}", e));
        let min_err = match codec::serialize(&cp, CheckpointFormat::Json) {
            Ok(b) => codec::deserialize::<EngineCheckpoint>(&b).err().map(|e| e.to_string()).unwrap_or_default(),
            Err(e) => e.to_string(),
        };
        out.violation(
            &format!("value:{}/{}", class, kind),
            what,
            json!({"lane": case.lane, "context": case.context, "error_on_full_checkpoint": err,
                   "minimal": {"checkpoint": "EngineCheckpoint with variables = {\"v\": <value>} and everything else empty", "value": sv_json(&example), "serialized": if bytes.len() > 600 { format!("{}…", bytes.chars().take(600).collect::<String>()) } else { bytes }, "error": min_err}}),
        );
    }
}

fn check_case(case: Case, out: &mut Partial) {
    out.eval();
    let events = case.cp.events();
    out.add("checkpoint_events", events.len() as u64);
    let c0 = case.cp.canon();
    // non-trivial: >= 1 buffered event with >= 3 fields
    if events.iter().any(|(_, e)| e.fields.len() >= 3) {
        out.nontrivial(&format!("{:?}", c0));
    }
    let bytes = match case.cp.ser() {
        Ok(b) => b,
        Err(e) => {
            attribute(&case, "serialize-error", &e.to_string(), out);
            return;
        }
    };
    out.add("bytes_serialized", bytes.len() as u64);
    let back = match case.cp.de(&bytes) {
        Ok(b) => b,
        Err(e) => {
            attribute(&case, "deserialize-error", &e.to_string(), out);
            return;
        }
    };
    out.add("round_trips_ok", 1);
    // auto-detection: leading whitespace must still be recognised as JSON
    let mut padded = b" \n\t".to_vec();
    padded.extend_from_slice(&bytes);
    match case.cp.de(&padded) {
        Ok(b2) => {
            let (mut s, mut p) = (vec![], vec![]);
            if diff(&c0, &b2.canon(), &mut s, &mut p, "").is_some() && diff(&c0, &back.canon(), &mut vec![], &mut vec![], "").is_none() {
                out.violation("autodetect:leading-whitespace/not-equal", "checkpoint read through auto-detection with leading whitespace differs", json!({"lane": case.lane, "context": case.context}));
            }
        }
        Err(e) => out.violation("autodetect:leading-whitespace/deserialize-error", "JSON checkpoint with leading whitespace is not read back", json!({"lane": case.lane, "context": case.context, "error": e.to_string()})),
    }
    // equal checkpoint
    let c1 = back.canon();
    let (mut s, mut p) = (vec![], vec![]);
    if let Some(d) = diff(&c0, &c1, &mut s, &mut p, "") {
        // a value-level difference is attributed to the value class, anything else to the component skeleton
        let mut classes: BTreeMap<&'static str, SerializableValue> = BTreeMap::new();
        for v in case.cp.values() {
            minimal_failing(v, "not-equal", &mut classes);
        }
        if classes.is_empty() {
            out.violation(
                &format!("component:{}:{}/not-equal", d.skeleton.join("."), d.leaf),
                "checkpoint differs after the codec round trip",
                json!({"lane": case.lane, "context": case.context, "path": d.path.join("/"), "before": d.a, "after": d.b}),
            );
        } else {
            for (class, example) in classes {
                out.violation(
                    &format!("value:{}/not-equal", class),
                    "a value of the checkpoint differs after the codec round trip",
                    json!({"lane": case.lane, "context": case.context, "path": d.path.join("/"), "before": d.a, "after": d.b, "minimal_value": sv_json(&example)}),
                );
            }
        }
    } else {
        out.add("checkpoints_equal_after_round_trip", 1);
    }
    // restored events vs originals
    for (path, se) in back.events() {
        if let Some(pt) = case.pair_types {
            if !pt.contains(&se.event_type.as_str()) || !se.fields.contains_key("marker") {
                continue;
            }
        }
        let uid = match uid_of(se) {
            Some(u) => u,
            None => continue,
        };
        if let Some(orig) = case.originals.get(&uid) {
            let restored: Event = se.clone().into();
            compare_restored(orig, &restored, &json!({"lane": case.lane, "where": path, "case": case.context}), out);
        }
    }
}

// ---------------------------------------------------------------------------
// Hostile values
// ---------------------------------------------------------------------------
const UNICODE: [&str; 8] = ["héllo wörld", "Ωμέγα", "日本語テキスト", "😀👨‍👩‍👧", "e\u{301}\u{327}", "שלום عليكم", "\u{FFFE}\u{FFFF}\u{2028}\u{2029}\u{10FFFF}", "ẞ\u{200B}\u{FEFF}x"];
const NASTY_ASCII: [&str; 6] = ["", "\"quoted\" \\back\\slash/", "\u{0}\u{1}\n\r\t\u{1f}\u{7f}", "{\"Float\":null}", "null", "\\u0041 [] {} ,:"];

fn fmap(entries: Vec<(String, Value)>) -> Value {
    let mut m: indexmap::IndexMap<std::sync::Arc<str>, Value, rustc_hash::FxBuildHasher> = indexmap::IndexMap::with_hasher(rustc_hash::FxBuildHasher);
    for (k, v) in entries {
        m.insert(k.into(), v);
    }
    Value::map(m)
}

fn deep_array(depth: usize) -> Value {
    let mut v = Value::Int(7);
    for _ in 0..depth {
        v = Value::array(vec![v]);
    }
    v
}

/// Named catalogue for the systematic lane (name is only for the witness; signatures use classes).
fn catalog(thorough: bool) -> Vec<(&'static str, Value)> {
    let mut c = vec![
        ("int-zero", Value::Int(0)),
        ("int-min", Value::Int(i64::MIN)),
        ("int-max", Value::Int(i64::MAX)),
        ("float-nan", Value::Float(f64::NAN)),
        ("float-pos-inf", Value::Float(f64::INFINITY)),
        ("float-neg-inf", Value::Float(f64::NEG_INFINITY)),
        ("float-neg-zero", Value::Float(-0.0)),
        ("float-subnormal", Value::Float(5e-324)),
        ("float-max", Value::Float(f64::MAX)),
        ("float-min", Value::Float(f64::MIN)),
        ("float-0.1+0.2", Value::Float(0.1 + 0.2)),
        ("float-1e23", Value::Float(1e23)),
        ("float-2^53+2", Value::Float(9007199254740994.0)),
        ("float-min-positive", Value::Float(f64::MIN_POSITIVE)),
        ("bool", Value::Bool(true)),
        ("null", Value::Null),
        ("string-empty", Value::Str("".into())),
        ("string-unicode", Value::Str(UNICODE.join(" ").into())),
        ("string-control", Value::Str(NASTY_ASCII[2].into())),
        ("string-quotes", Value::Str(NASTY_ASCII[1].into())),
        ("string-looks-like-json", Value::Str(NASTY_ASCII[3].into())),
        ("string-long", Value::Str("x😀".repeat(2000).into())),
        ("timestamp-ns", Value::Timestamp(1_704_067_200_123_456_789)),
        ("timestamp-min", Value::Timestamp(i64::MIN)),
        ("timestamp-max", Value::Timestamp(i64::MAX)),
        ("duration-zero", Value::Duration(0)),
        ("duration-ns", Value::Duration(1_500_000_001)),
        ("duration-max", Value::Duration(u64::MAX)),
        ("array-empty", Value::array(vec![])),
        ("array-mixed", Value::array(vec![Value::Int(1), Value::Float(2.5), Value::Str("z".into()), Value::Null, Value::Bool(false), Value::Timestamp(5), Value::Duration(6)])),
        ("array-nested", Value::array(vec![Value::array(vec![Value::Int(1), Value::array(vec![Value::Int(2), Value::array(vec![])])]), Value::array(vec![])])),
        ("map-empty", fmap(vec![])),
        ("map-ordered-z-to-a", fmap(vec![("z".into(), Value::Int(1)), ("m".into(), Value::Int(2)), ("a".into(), Value::Int(3)), ("b".into(), Value::Int(4))])),
        ("map-unicode-and-empty-keys", fmap(vec![("".into(), Value::Int(0)), ("ключ".into(), Value::Str("значение".into())), ("😀".into(), Value::Null), ("a\"b\\c\n".into(), Value::Bool(true))])),
        ("map-nested", fmap(vec![("inner".into(), fmap(vec![("arr".into(), Value::array(vec![fmap(vec![("deep".into(), Value::Float(1.5))])])), ("t".into(), Value::Timestamp(-1))])), ("n".into(), Value::Null)])),
        ("array-with-nan-inside", Value::array(vec![Value::Float(1.0), Value::array(vec![Value::Float(f64::NAN)])])),
        ("map-with-inf-inside", fmap(vec![("ok".into(), Value::Int(1)), ("bad".into(), Value::Float(f64::INFINITY))])),
        ("array-nested-20-levels", deep_array(20)),
        // each array level is two JSON levels ({"Array":[..]}): 70 levels exceed serde_json's recursion limit of 128
        ("array-nested-70-levels", deep_array(70)),
    ];
    let _ = thorough;
    c
}

fn random_float(rng: &mut Rng) -> f64 {
    match rng.below(6) {
        0 => f64::from_bits(rng.next_u64()),
        1 => (rng.range(-1_000_000, 1_000_000) as f64) / 1000.0,
        2 => rng.f64_unit() * 10f64.powi(rng.range(-300, 300) as i32),
        3 => rng.range(-9_007_199_254_740_992, 9_007_199_254_740_992) as f64,
        4 => *rng.pick(&[0.0, -0.0, 1e23, 0.1, 0.3, 1.0 / 3.0, 5e-324, 2.2250738585072014e-308, 1.7976931348623157e308, 4.35, 8.41e21, 2.0f64.powi(70)]),
        _ => f64::from_bits(rng.next_u64() & 0x7FEF_FFFF_FFFF_FFFF),
    }
}

fn random_string(rng: &mut Rng) -> String {
    let mut s = String::new();
    for _ in 0..rng.below(4) {
        match rng.below(4) {
            0 => s.push_str(*rng.pick(&UNICODE[..])),
            1 => s.push_str(*rng.pick(&NASTY_ASCII[..])),
            2 => {
                // random scalar values (any plane)
                for _ in 0..1 + rng.below(5) {
                    if let Some(c) = char::from_u32(rng.below(0x11_0000) as u32) {
                        s.push(c);
                    }
                }
            }
            _ => s.push_str(&format!("w{}", rng.below(100))),
        }
    }
    s
}

/// `hostile`: may contain non-finite floats.
fn random_value(rng: &mut Rng, depth: usize, hostile: bool) -> Value {
    let top = if depth >= 3 { 8 } else { 10 };
    match rng.below(top) {
        0 => Value::Int(match rng.below(4) { 0 => i64::MIN, 1 => i64::MAX, 2 => rng.range(-5, 5), _ => rng.next_u64() as i64 }),
        1 => {
            let f = random_float(rng);
            if f.is_finite() {
                Value::Float(f)
            } else if hostile {
                Value::Float(f)
            } else {
                Value::Float(1.5)
            }
        }
        2 => {
            if hostile && rng.chance(1, 2) {
                Value::Float(*rng.pick(&[f64::NAN, f64::INFINITY, f64::NEG_INFINITY, -f64::NAN]))
            } else {
                Value::Float(random_float(rng)).pipe_finite()
            }
        }
        3 => Value::Bool(rng.chance(1, 2)),
        4 => Value::Null,
        5 => Value::Str(random_string(rng).into()),
        6 => Value::Timestamp(match rng.below(3) { 0 => rng.next_u64() as i64, 1 => 1_704_067_200_000_000_000 + rng.range(0, 999_999_999), _ => -rng.range(0, 1_000_000_000_000) }),
        7 => Value::Duration(match rng.below(3) { 0 => rng.next_u64(), 1 => u64::MAX, _ => rng.below(10_000_000) as u64 }),
        8 => Value::array((0..rng.below(4)).map(|_| random_value(rng, depth + 1, hostile)).collect()),
        _ => {
            let n = rng.below(4);
            let mut es = vec![];
            for i in 0..n {
                let k = if rng.chance(1, 3) { random_string(rng) } else { format!("k{}", 9 - i) };
                es.push((k, random_value(rng, depth + 1, hostile)));
            }
            fmap(es)
        }
    }
}

trait PipeFinite {
    fn pipe_finite(self) -> Self;
}
impl PipeFinite for Value {
    fn pipe_finite(self) -> Value {
        match self {
            Value::Float(f) if !f.is_finite() => Value::Float(2.5),
            v => v,
        }
    }
}

fn random_ts(rng: &mut Rng) -> DateTime<Utc> {
    match rng.below(8) {
        0 => ts_ms(rng.range(0, 100_000)),                                   // ms aligned
        1 => ts_ns(rng.range(0, 100_000) * 1_000_000 + rng.range(1, 999_999)), // sub-ms
        2 => ts_ns(rng.range(0, 1_000_000_000_000)),
        3 => Utc_timestamp_nanos(-rng.range(1, 1_000_000_000_000_000)),      // before 1970
        4 => {
            // far future: year 9999 with ns precision (beyond the i64-nanosecond range)
            use chrono::TimeZone;
            Utc.timestamp_opt(253_402_300_799 - rng.range(0, 1_000_000), rng.range(0, 999_999_999) as u32).single().expect("ts")
        }
        5 => ts_ns(rng.range(0, 100_000) * 1_000_000 + 999_999),
        6 => ts_ns(rng.range(0, 100_000) * 1_000_000 + 1),
        _ => ts_ms(rng.range(-100_000, 100_000)),
    }
}

#[allow(non_snake_case)]
fn Utc_timestamp_nanos(ns: i64) -> DateTime<Utc> {
    use chrono::TimeZone;
    Utc.timestamp_nanos(ns)
}

fn random_event(rng: &mut Rng, uid: i64, hostile: bool) -> Event {
    let ty = if rng.chance(1, 6) { rng.pick(&UNICODE).to_string() } else { format!("T{}", rng.below(4)) };
    let mut e = Event::new_at(ty.as_str(), random_ts(rng));
    e.data.insert("uid".into(), Value::Int(uid));
    for i in 0..1 + rng.below(5) {
        let k = if rng.chance(1, 5) { random_string(rng) } else { format!("f{}", i) };
        if &*k == "uid" {
            continue;
        }
        e.data.insert(k.into(), random_value(rng, 0, hostile));
    }
    e
}

// ---------------------------------------------------------------------------
// Synthesised checkpoints
// ---------------------------------------------------------------------------
const COMPONENTS: [&str; 9] = ["window.events", "window.partitions", "sase.stack", "sase.captured", "sase.kleene_events", "sase.partitioned_runs", "join.buffers", "outer.window", "outer.pattern_states"];

fn se(e: &Event) -> SerializableEvent {
    SerializableEvent::from(e)
}

fn new_run(rng: &mut Rng) -> RunCheckpoint {
    RunCheckpoint {
        current_state: rng.below(4),
        stack: vec![],
        captured: HashMap::new(),
        event_time_started_at_ms: if rng.chance(1, 2) { Some(rng.range(-5, 1_704_067_200_000)) } else { None },
        event_time_deadline_ms: if rng.chance(1, 2) { Some(rng.next_u64() as i64) } else { None },
        partition_key: None,
        invalidated: rng.chance(1, 4),
        pending_negation_count: rng.below(3),
        kleene_events: None,
    }
}

fn new_sase(rng: &mut Rng) -> SaseCheckpoint {
    SaseCheckpoint {
        active_runs: vec![],
        partitioned_runs: HashMap::new(),
        watermark_ms: if rng.chance(1, 2) { Some(rng.range(0, 1_000_000)) } else { None },
        max_timestamp_ms: if rng.chance(1, 2) { Some(rng.range(0, 1_000_000)) } else { None },
        total_runs_created: rng.next_u64(),
        total_runs_completed: rng.below(100) as u64,
        total_runs_dropped: u64::MAX,
        total_runs_evicted: 0,
    }
}

fn new_window(rng: &mut Rng) -> WindowCheckpoint {
    WindowCheckpoint {
        events: vec![],
        window_start_ms: if rng.chance(1, 2) { Some(rng.range(-10, 1_704_067_200_000)) } else { None },
        last_emit_ms: if rng.chance(1, 2) { Some(rng.next_u64() as i64) } else { None },
        partitions: HashMap::new(),
    }
}

fn place_engine(cp: &mut EngineCheckpoint, comp: &str, e: &Event, rng: &mut Rng) {
    let name = if rng.chance(1, 5) { rng.pick(&UNICODE).to_string() } else { format!("S{}", rng.below(3)) };
    match comp {
        "window.events" => cp.window_states.entry(name).or_insert_with(|| new_window(rng)).events.push(se(e)),
        "window.partitions" => {
            let w = cp.window_states.entry(name).or_insert_with(|| new_window(rng));
            let key = if rng.chance(1, 4) { random_string(rng) } else { format!("p{}", rng.below(3)) };
            w.partitions.entry(key).or_insert_with(|| PartitionedWindowCheckpoint { events: vec![], window_start_ms: Some(rng.range(0, 10_000)) }).events.push(se(e));
        }
        "sase.stack" | "sase.captured" | "sase.kleene_events" | "sase.partitioned_runs" => {
            let s = cp.sase_states.entry(name).or_insert_with(|| new_sase(rng));
            let runs = if comp == "sase.partitioned_runs" {
                s.partitioned_runs.entry(format!("pk{}", rng.below(2))).or_default()
            } else {
                &mut s.active_runs
            };
            if runs.is_empty() || rng.chance(1, 3) {
                runs.push(new_run(rng));
            }
            let r = runs.last_mut().unwrap();
            match comp {
                "sase.captured" => {
                    r.captured.insert(format!("a{}", r.captured.len()), se(e));
                }
                "sase.kleene_events" => r.kleene_events.get_or_insert_with(Vec::new).push(se(e)),
                _ => r.stack.push(StackEntryCheckpoint { event: se(e), alias: if rng.chance(1, 2) { Some(format!("al{}", rng.below(3))) } else { None } }),
            }
            if comp == "sase.partitioned_runs" {
                // partition key = one of the event's own values (hostile values reach this slot too)
                let s_ev = se(e);
                let mut fs: Vec<_> = s_ev.fields.iter().collect();
                fs.sort_by(|a, b| a.0.cmp(b.0));
                r.partition_key = fs.get(rng.below(fs.len().max(1))).map(|(_, v)| (*v).clone());
            }
        }
        _ => {
            let j = cp.join_states.entry(name).or_insert_with(|| JoinCheckpoint { buffers: HashMap::new(), sources: vec!["L".into(), "R".into()], join_keys: [("L".to_string(), "k".to_string()), ("R".to_string(), "k".to_string())].into_iter().collect(), window_duration_ms: rng.range(1, 60_000) });
            let src = if rng.chance(1, 2) { "L" } else { "R" };
            j.buffers.entry(src.into()).or_default().entry(format!("key{}", rng.below(3))).or_default().push((e.timestamp.timestamp_millis(), se(e)));
        }
    }
}

fn decorate_engine(cp: &mut EngineCheckpoint, rng: &mut Rng) {
    cp.events_processed = rng.next_u64();
    cp.output_events_emitted = rng.below(1000) as u64;
    if rng.chance(1, 2) {
        let mut sources = HashMap::new();
        for i in 0..rng.below(3) {
            sources.insert(format!("src{}", i), SourceWatermarkCheckpoint { watermark_ms: if rng.chance(1, 2) { Some(rng.range(0, 1_000_000)) } else { None }, max_timestamp_ms: Some(rng.range(0, 1_000_000)), max_out_of_orderness_ms: rng.range(0, 5_000) });
        }
        cp.watermark_state = Some(WatermarkCheckpoint { sources, effective_watermark_ms: if rng.chance(1, 2) { Some(rng.range(0, 1_000_000)) } else { None } });
    }
    if rng.chance(1, 2) {
        cp.distinct_states.insert("D".into(), DistinctCheckpoint { keys: (0..rng.below(4)).map(|_| random_string(rng)).collect() });
    }
    if rng.chance(1, 2) {
        cp.limit_states.insert("L".into(), LimitCheckpoint { max: rng.below(10), count: rng.below(10) });
    }
}

/// Build a synthesised checkpoint holding `events` at the given components.
fn synthesise(rng: &mut Rng, events: &[Event], comps: &[&str], outer: bool, loose: &[SerializableValue]) -> AnyCp {
    let mut eng = empty_engine_cp();
    let mut out_cp = Checkpoint { id: rng.next_u64(), timestamp_ms: rng.range(0, 2_000_000_000_000), events_processed: rng.next_u64(), window_states: HashMap::new(), pattern_states: HashMap::new(), metadata: HashMap::new(), context_states: HashMap::new() };
    for (i, e) in events.iter().enumerate() {
        let comp = comps[i % comps.len()];
        match comp {
            "outer.window" => out_cp.window_states.entry(format!("W{}", rng.below(2))).or_insert_with(|| new_window(rng)).events.push(se(e)),
            "outer.pattern_states" => {
                let ps = out_cp.pattern_states.entry(format!("P{}", rng.below(2))).or_insert_with(|| PatternCheckpoint { partial_matches: vec![] });
                if ps.partial_matches.is_empty() || rng.chance(1, 3) {
                    ps.partial_matches.push(PartialMatchCheckpoint { state: format!("q{}", rng.below(4)), matched_events: vec![], start_ms: rng.range(0, 1_000_000) });
                }
                ps.partial_matches.last_mut().unwrap().matched_events.push(se(e));
            }
            c => place_engine(&mut eng, c, e, rng),
        }
    }
    for (i, v) in loose.iter().enumerate() {
        eng.variables.insert(format!("var{}", i), v.clone());
    }
    decorate_engine(&mut eng, rng);
    if outer {
        out_cp.metadata.insert("tenant".into(), rng.pick(&UNICODE).to_string());
        out_cp.metadata.insert(random_string(rng), random_string(rng));
        out_cp.context_states.insert("ctx0".into(), eng);
        if rng.chance(1, 3) {
            let mut e2 = empty_engine_cp();
            decorate_engine(&mut e2, rng);
            out_cp.context_states.insert(rng.pick(&UNICODE).to_string(), e2);
        }
        AnyCp::Outer(out_cp)
    } else {
        AnyCp::Engine(eng)
    }
}

/// SerializableValue of a Value through the only public conversion (an event field).
fn to_sv(v: &Value) -> SerializableValue {
    let mut e = Event::new_at("x", ts_ms(0));
    e.data.insert("v".into(), v.clone());
    SerializableEvent::from(&e).fields.remove("v").expect("field")
}

// ---------------------------------------------------------------------------
// Lanes
// ---------------------------------------------------------------------------
fn systematic_lane(thorough: bool, out: &mut Partial) {
    let mut rng = Rng::new(0xC20);
    let cat = catalog(thorough);
    let mut uid = 0i64;
    // boundary shape: an event without any field (a heartbeat) next to an ordinary one, in every
    // event-holding component
    for comp in COMPONENTS.iter() {
        uid += 1;
        let mut e = Event::new_at("Reading", ts_ms(1234));
        e.data.insert("uid".into(), Value::Int(uid));
        e.data.insert("marker".into(), Value::Bool(true));
        let bare = Event::new_at("Heartbeat", ts_ms(1235));
        let mut originals = HashMap::new();
        originals.insert(uid, e.clone());
        let outer = comp.starts_with("outer.") || uid % 2 == 0;
        let cp = synthesise(&mut rng, &[e.clone(), bare], &[*comp], outer, &[]);
        let ctx = json!({"value_name": "event-without-fields", "component": comp, "wrapped_in_Checkpoint.context_states": outer});
        check_case(Case { cp, originals: &originals, pair_types: None, lane: "systematic", context: ctx }, out);
        out.add("systematic_cases", 1);
    }
    for (name, v) in &cat {
        for comp in COMPONENTS.iter().chain(["variables"].iter()) {
            for ts_kind in ["ms-aligned", "sub-ms"] {
                uid += 1;
                let ts = if ts_kind == "ms-aligned" { ts_ms(1234) } else { ts_ns(1_234_567_891) };
                let mut e = Event::new_at("Reading", ts);
                e.data.insert("uid".into(), Value::Int(uid));
                e.data.insert("marker".into(), Value::Bool(true));
                e.data.insert("label".into(), Value::Str("héllo".into()));
                let mut loose = vec![];
                if *comp == "variables" {
                    if ts_kind == "sub-ms" {
                        continue;
                    }
                    loose.push(to_sv(v));
                } else {
                    e.data.insert("v".into(), v.clone());
                }
                let mut originals = HashMap::new();
                originals.insert(uid, e.clone());
                let outer = comp.starts_with("outer.") || uid % 3 == 0;
                let comps: Vec<&str> = if *comp == "variables" { vec!["window.events"] } else { vec![*comp] };
                let cp = synthesise(&mut rng, std::slice::from_ref(&e), &comps, outer, &loose);
                let ctx = json!({"value_name": name, "value": val_text(v), "component": comp, "event_timestamp": ts_kind, "wrapped_in_Checkpoint.context_states": outer});
                if out.samples.len() < 2 && *name == "map-nested" {
                    out.sample(json!({"lane": "systematic", "case": ctx.clone(), "event": event_full_json(&e)}));
                }
                check_case(Case { cp, originals: &originals, pair_types: None, lane: "systematic", context: ctx }, out);
                out.add("systematic_cases", 1);
            }
        }
    }
}

fn random_synth_lane(rng: &mut Rng, n: usize, out: &mut Partial) {
    for ci in 0..n {
        let hostile = rng.chance(1, 4);
        let nev = 1 + rng.below(8);
        let mut originals = HashMap::new();
        let mut events = vec![];
        for i in 0..nev {
            let mut e = random_event(rng, i as i64 + 1, hostile);
            e.data.insert("marker".into(), Value::Bool(true));
            originals.insert(i as i64 + 1, e.clone());
            events.push(e);
        }
        let mut comps: Vec<&str> = COMPONENTS.to_vec();
        rng.shuffle(&mut comps);
        comps.truncate(1 + rng.below(4));
        let outer = rng.chance(1, 3) || comps.iter().any(|c| c.starts_with("outer."));
        let loose: Vec<SerializableValue> = (0..rng.below(3)).map(|_| to_sv(&random_value(rng, 0, hostile))).collect();
        let cp = synthesise(rng, &events, &comps, outer, &loose);
        let ctx = json!({"events": events.iter().map(event_full_json).collect::<Vec<_>>(), "components": comps, "wrapped_in_Checkpoint.context_states": outer, "variables": loose.iter().map(sv_json).collect::<Vec<_>>()});
        if ci == 0 {
            out.sample(json!({"lane": "random-synthesised", "case": ctx.clone()}));
        }
        check_case(Case { cp, originals: &originals, pair_types: None, lane: "random-synthesised", context: ctx }, out);
        out.add("random_synth_cases", 1);
    }
}

fn harvest_lane(rng: &mut Rng, nprogs: usize, rt: &tokio::runtime::Runtime, out: &mut Partial) {
    let opts = POpts { max_streams: 5, windows: true, time_windows: true, sequences: true, joins: true, stateful_pass: true, merges: true, self_named: false };
    for pi in 0..nprogs {
        let prog = gen_prog(rng, &opts);
        let src = prog.vpl();
        let len = 8 + rng.below(30);
        let ins = gen_inputs(rng, len);
        let hostile = rng.chance(1, 4);
        let sub_ms = rng.chance(1, 2);
        let mut originals: HashMap<i64, Event> = HashMap::new();
        let mut events = vec![];
        for i in &ins {
            let mut e = i.event();
            if sub_ms && rng.chance(2, 3) {
                e.timestamp = ts_ns(i.ts_ms * 1_000_000 + rng.range(1, 999_999));
            }
            e.data.insert("marker".into(), Value::Bool(true));
            e.data.insert("v".into(), random_value(rng, 0, hostile));
            if rng.chance(1, 2) {
                e.data.insert("w".into(), Value::Str(random_string(rng).into()));
            }
            originals.insert(i.uid, e.clone());
            events.push(e);
        }
        let mut l = match catch(std::panic::AssertUnwindSafe(|| load(&src))) {
            Ok(Ok(l)) => l,
            Ok(Err(_)) | Err(_) => {
                out.add("harvest_programs_rejected", 1);
                continue;
            }
        };
        let mut cuts = 0;
        for (idx, e) in events.iter().enumerate() {
            let r = catch(std::panic::AssertUnwindSafe(|| rt.block_on(l.engine.process(e.clone()))));
            if !matches!(r, Ok(Ok(()))) {
                out.add("harvest_engine_errors(not judged)", 1);
                break;
            }
            l.drain();
            if rng.chance(1, 6) || idx + 1 == events.len() {
                let cp = match catch(std::panic::AssertUnwindSafe(|| l.engine.create_checkpoint())) {
                    Ok(c) => c,
                    Err(_) => {
                        out.add("harvest_create_checkpoint_panics(not judged)", 1);
                        break;
                    }
                };
                cuts += 1;
                // state-component coverage counters
                if !cp.window_states.is_empty() { out.add("harvested_with_window_state", 1); }
                if cp.sase_states.values().any(|s| !s.active_runs.is_empty() || !s.partitioned_runs.is_empty()) { out.add("harvested_with_sase_runs", 1); }
                if cp.join_states.values().any(|j| !j.buffers.is_empty()) { out.add("harvested_with_join_buffers", 1); }
                if !cp.distinct_states.is_empty() { out.add("harvested_with_distinct_state", 1); }
                let ctx = json!({"program": src, "events_fed": events[..=idx].iter().map(event_full_json).collect::<Vec<_>>(), "cut_after_event_index": idx, "then": "engine.create_checkpoint()"});
                if pi == 0 && cuts == 1 {
                    let mut v = vec![];
                    walk_engine(&cp, "", &mut v);
                    let n_events = v.len();
                    out.sample(json!({"lane": "harvested", "program": src, "cut_after_event_index": idx, "events_in_checkpoint": n_events}));
                }
                let any = if rng.chance(1, 4) {
                    let mut o = Checkpoint { id: cuts as u64, timestamp_ms: 1_704_067_200_000, events_processed: idx as u64 + 1, window_states: HashMap::new(), pattern_states: HashMap::new(), metadata: HashMap::new(), context_states: HashMap::new() };
                    o.context_states.insert("main".into(), cp);
                    AnyCp::Outer(o)
                } else {
                    AnyCp::Engine(cp)
                };
                check_case(Case { cp: any, originals: &originals, pair_types: Some(&BASE_TYPES[..]), lane: "harvested", context: ctx }, out);
                out.add("harvested_checkpoints", 1);
            }
        }
    }
}

fn main() {
    let args = Args::parse();
    install_quiet_panic_hook();
    watchdog("C20", args.pick(900, 7200));
    let mut rep = Report::new("C20", "exploration", &args);
    rep.rule = "three lanes. systematic: every value of a fixed catalogue (int extremes, NaN, +-inf, -0.0, subnormal, 1e23, unicode / control / quote strings, ns timestamps, u64::MAX durations, empty / mixed / nested arrays and maps, ordered and unicode map keys, non-finite floats inside containers, 20- and 70-level nesting) placed in one event at every event-holding component (window events, window partitions, SASE stack / captured / kleene_events / partitioned runs + partition key, join buffers, outer Checkpoint window_states / pattern_states, engine variables) x {ms-aligned, sub-ms} event timestamp x {EngineCheckpoint, Checkpoint.context_states}. random-synthesised: 1-8 random events (1-6 fields, random nested values depth<=4, random unicode type and field names, timestamps before 1970 / ns precision / far future) spread over 1-4 random components, a quarter of the cases with non-finite floats. harvested: proggen programs (windows, sequences, joins, merges, distinct/limit) fed 8-37 events carrying an extra random field, half of the runs with sub-ms timestamps, Engine::create_checkpoint() at random cuts (1/6 per event and at the end). Non-trivial: checkpoint holding >=1 event with >=3 fields; distinct by canonical tree.".into();
    rep.assume("only CheckpointFormat::Json exists in this build (feature binary-codec off), so the codec lane is JSON + auto-detection (plain and with leading whitespace)");
    rep.assume("float equality is the code base's own (varpulis_core::Value: NaN==NaN, -0.0==0.0); nested map values are compared with entry order (they are ordered containers on both sides), top-level event field order is not judged (SerializableEvent.fields is a HashMap by design) but counted");
    rep.assume("restored events are paired with their originals through an integer `uid` field that the harness puts on every original event; harvested checkpoints pair only events of the input types A/B that still carry the harness marker field (derived events have no original)");
    rep.assume("a panic or error of the engine while running a harvest program is not judged here (C19/C16 territory); only create_checkpoint() results are");

    if let Some(path) = args.replay.clone() {
        let doc: J = serde_json::from_str(&std::fs::read_to_string(&path).expect("replay file")).expect("json");
        println!("signature: {}\nwitness: {}", doc["signature"], serde_json::to_string_pretty(&doc["witness"]).unwrap());
        // re-run the systematic lane (deterministic) and show whether the signature still appears
        let mut p = Partial::default();
        systematic_lane(true, &mut p);
        let sig = doc["signature"].as_str().unwrap_or("");
        let again = p.violations.iter().any(|v| v.0 == sig) || p.counters.contains_key(&format!("__sig:{}", sig));
        println!("systematic lane reproduces this signature now: {}", again);
        std::process::exit(0);
    }

    // systematic lane (deterministic, single thread — it is small)
    let mut p = Partial::default();
    systematic_lane(args.thorough(), &mut p);
    rep.merge(p);

    let threads = ncpu();
    let synth_per_thread = args.pick(4000usize, 200_000usize) / threads + 1;
    let progs_per_thread = args.pick(320usize, 16_000usize) / threads + 1;
    let parts = parallel(threads, args.seed ^ 0xC20, move |_ti, mut rng| {
        let mut out = Partial::default();
        let rt = rt();
        random_synth_lane(&mut rng, synth_per_thread, &mut out);
        harvest_lane(&mut rng, progs_per_thread, &rt, &mut out);
        out
    });
    for p in parts {
        rep.merge(p);
    }
    std::process::exit(rep.finish());
}
