//! C07 — ZDDs are canonical and garbage collection preserves live families.
//! Monitor: same op sequences as C06 interleaved with gc on random subsets of live
//! handles; invariant checks at quiescent points: (i) equal family <=> equal root per
//! arena, (ii) every stored node reduced + ordered (hook H2), (iii) gc returns handles
//! denoting the pre-gc families and later operations still agree with the model,
//! (iv) iteration yields each member once, ascending.
use serde_json::json;
use vh::zddmodel::*;
use vh::*;

fn main() {
    let args = Args::parse();
    install_quiet_panic_hook();
    watchdog("C07", args.pick(900, 7200));
    let mut rep = Report::new("C07", "exploration", &args);
    rep.rule = "random op sequences (depth <=40, <=5 variables) over Zdd/ZddArena/SharedArena with every family also re-built in a second, structurally different way (reverse union order, via difference from a superset, via intersection), gc on random subsets of live handles; invariants checked after every step. A history is non-trivial when >=1 gc dropped >=1 node and some family was live through >=2 different constructions; distinct by hash of the history.".into();
    rep.assume("node dump comes from hook H2 (ZddArena::verif_nodes / Zdd::verif_nodes, cfg varpulis_verif)");
    #[cfg(not(varpulis_verif))]
    rep.inconclusive("built without --cfg varpulis_verif: stored nodes not observable");
    let threads = ncpu();
    let seqs_per_thread = args.pick(1500usize, 120_000usize) / threads + 1;
    let parts = parallel(threads, args.seed ^ 0xC07, move |_ti, mut rng| {
        let mut out = Partial::default();
        for s in 0..seqs_per_thread {
            let nv = 2 + rng.below(4) as u32;
            let depth = 8 + rng.below(33);
            let mut w = World::new(nv);
            let mut rebuilt = 0u64;
            let mut bad = false;
            for step in 0..depth {
                let r = catch(std::panic::AssertUnwindSafe(|| {
                    let (name, slot) = random_step(&mut w, &mut rng, true);
                    // second construction of the same family, in a different way
                    if let Some(i) = slot {
                        if rng.chance(1, 2) {
                            let f = w.slots[i].model.clone();
                            match rng.below(3) {
                                0 => {
                                    w.push_family(&f, 1);
                                }
                                1 => {
                                    // superset minus the rest
                                    let universe: Family = all_subsets(nv).into_iter().map(|v| v.into_iter().collect()).collect();
                                    let rest: Family = universe.difference(&f).cloned().collect();
                                    let u = w.push_family(&universe, 0);
                                    let r = w.push_family(&rest, 1);
                                    w.binop(BinOp::Difference, u, r);
                                }
                                _ => {
                                    // intersection of two supersets
                                    let mut sup1 = f.clone();
                                    let mut sup2 = f.clone();
                                    for (k, sub) in all_subsets(nv).into_iter().enumerate() {
                                        let m: Set = sub.into_iter().collect();
                                        if !f.contains(&m) {
                                            if k % 2 == 0 { sup1.insert(m); } else { sup2.insert(m); }
                                        }
                                    }
                                    let a = w.push_family(&sup1, 0);
                                    let b = w.push_family(&sup2, 1);
                                    w.binop(BinOp::Intersection, a, b);
                                }
                            }
                            return (name, true);
                        }
                    }
                    (name, false)
                }));
                match r {
                    Ok((name, twice)) => {
                        out.eval();
                        if twice {
                            rebuilt += 1;
                        }
                        let phase = if name == "gc" { "after-gc" } else if w.gcs > 0 { "post-gc-op" } else { "no-gc" };
                        let c = w.check_canonical(phase, &mut out);
                        out.add("invariant_checks", c);
                        if name == "gc" {
                            out.add("gcs", 1);
                        }
                    }
                    Err(p) => {
                        out.violation("panic/sequence", "panic in a ZDD operation sequence", json!({"history": w.log, "panic": p, "step": step, "site": panic_site(&last_panic_location())}));
                        bad = true;
                        break;
                    }
                }
            }
            if !bad && w.gc_dropped_nodes > 0 && rebuilt > 0 {
                out.nontrivial(&w.log);
            }
            out.add("gc_dropped_nodes", w.gc_dropped_nodes);
            if s == 0 {
                out.sample(json!({"nvars": nv, "gcs": w.gcs, "gc_dropped_nodes": w.gc_dropped_nodes, "history": w.log}));
            }
        }
        out
    });
    for p in parts {
        rep.merge(p);
    }
    std::process::exit(rep.finish());
}
