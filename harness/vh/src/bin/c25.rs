//! C25 — trend aggregation counts are correct and unaffected by sharing.
//! Monitor: brute-force enumeration of event trends (skip-till-any-match, as docs/reference/
//! trend-aggregation.md and ADR-005 define them: one event per plain step, a non-empty increasing
//! subsequence per Kleene step, steps strictly one after the other) compared with what the real code
//! reports: `HamletAggregator` (flush) alone and co-registered with 1-3 overlapping queries under
//! forced-shared / forced-non-shared / adaptive optimizer settings, `GretaExecutor` (flush) alone and
//! co-registered, and the engine's `.trend_aggregate(count: count_trends())` alone and next to other
//! trend streams. Second oracle for every co-registered mode: the value must equal the one the same
//! implementation reports for the query alone.
//! The component under test is wrong on most inputs, so signatures are computed, not sampled: for
//! every (query shape, mode, oracle) the harness enumerates all streams in length-lexicographic order
//! (x a fixed list of companion sets) and the signature carries the smallest failing one.
use serde_json::{json, Value as J};
use std::collections::BTreeMap;
use std::sync::Arc;
use varpulis_runtime::event::Event;
use varpulis_runtime::greta::{GretaAggregate, GretaExecutor, GretaQuery};
use varpulis_runtime::hamlet::optimizer::OptimizerConfig;
use varpulis_runtime::hamlet::template::TemplateBuilder;
use varpulis_runtime::hamlet::{HamletAggregator, HamletConfig, QueryRegistration};
use vh::eng::*;
use vh::*;

const TYPES: [&str; 3] = ["A", "B", "C"];

#[derive(Clone, Debug, PartialEq, Eq, Hash, PartialOrd, Ord)]
struct Query {
    /// (type index into TYPES, kleene)
    steps: Vec<(u8, bool)>,
}

impl Query {
    fn shape(&self) -> String {
        self.steps.iter().map(|s| if s.1 { "K" } else { "s" }).collect::<Vec<_>>().join("-")
    }
    fn text(&self) -> String {
        self.steps.iter().map(|s| format!("{}{}", TYPES[s.0 as usize], if s.1 { "+" } else { "" })).collect::<Vec<_>>().join(" -> ")
    }
    fn kleene_types(&self) -> Vec<u8> {
        self.steps.iter().filter(|s| s.1).map(|s| s.0).collect()
    }
    fn overlaps(&self, o: &Query) -> bool {
        self.kleene_types().iter().any(|t| o.kleene_types().contains(t))
    }
    fn vpl(&self, name: &str) -> String {
        let mut s = format!("stream {} = ", name);
        for (i, (t, k)) in self.steps.iter().enumerate() {
            if i == 0 {
                s.push_str(&format!("{}{} as e0", if *k { "all " } else { "" }, TYPES[*t as usize]));
            } else {
                s.push_str(&format!("\n    -> {}{} as e{}", if *k { "all " } else { "" }, TYPES[*t as usize], i));
            }
        }
        s.push_str("\n    .within(60s)\n    .trend_aggregate(count: count_trends())\n    .emit(n: count)\n");
        s
    }
}

/// All 2-3 step queries over distinct types of {A,B,C} with 1-2 Kleene steps (54), fixed order.
fn all_queries() -> Vec<Query> {
    let mut seqs: Vec<Vec<u8>> = vec![];
    for a in 0..3u8 {
        for b in 0..3u8 {
            if a != b {
                seqs.push(vec![a, b]);
            }
        }
    }
    for a in 0..3u8 {
        for b in 0..3u8 {
            for c in 0..3u8 {
                if a != b && b != c && a != c {
                    seqs.push(vec![a, b, c]);
                }
            }
        }
    }
    let mut out = vec![];
    for s in seqs {
        for mask in 1u32..(1 << s.len()) {
            if mask.count_ones() <= 2 {
                out.push(Query { steps: s.iter().enumerate().map(|(i, t)| (*t, mask & (1 << i) != 0)).collect() });
            }
        }
    }
    out
}

/// The 9 shapes over the canonical type order A, B, (C).
fn canonical_queries() -> Vec<Query> {
    all_queries().into_iter().filter(|q| q.steps.iter().enumerate().all(|(i, s)| s.0 as usize == i)).collect()
}

// ---------------------------------------------------------------------------
// Brute force: enumerate every trend (one leaf per trend)
// ---------------------------------------------------------------------------
fn brute(q: &Query, stream: &[u8]) -> u64 {
    fn rec(q: &Query, stream: &[u8], step: usize, from: usize, leaves: &mut u64) {
        if step == q.steps.len() {
            *leaves += 1;
            return;
        }
        let (ty, kleene) = q.steps[step];
        for j in from..stream.len() {
            if stream[j] == ty {
                // j is the last event chosen for this step
                rec(q, stream, step + 1, j + 1, leaves);
                if kleene {
                    // ...or more events of the same step follow
                    more(q, stream, step, j + 1, leaves);
                }
            }
        }
    }
    fn more(q: &Query, stream: &[u8], step: usize, from: usize, leaves: &mut u64) {
        let ty = q.steps[step].0;
        for j in from..stream.len() {
            if stream[j] == ty {
                rec(q, stream, step + 1, j + 1, leaves);
                more(q, stream, step, j + 1, leaves);
            }
        }
    }
    let mut n = 0;
    rec(q, stream, 0, 0, &mut n);
    n
}

fn stream_text(s: &[u8]) -> String {
    s.iter().map(|t| TYPES[*t as usize]).collect::<Vec<_>>().join("")
}

fn events_of(stream: &[u8]) -> Vec<Event> {
    stream.iter().enumerate().map(|(i, t)| ev(TYPES[*t as usize], ts_ms(i as i64), &[("uid", varpulis_core::Value::Int(i as i64 + 1))])).collect()
}

// ---------------------------------------------------------------------------
// Drivers of the real code
// ---------------------------------------------------------------------------
#[derive(Clone, Copy, Debug, PartialEq, Eq, Hash, PartialOrd, Ord)]
enum Mode {
    HamletAlone,
    HamletCoShared,
    HamletCoNonShared,
    HamletCoAdaptive,
    GretaAlone,
    GretaCo,
    EngineAlone,
    EngineCo,
}

const MODES: [Mode; 8] = [Mode::HamletAlone, Mode::HamletCoShared, Mode::HamletCoNonShared, Mode::HamletCoAdaptive, Mode::GretaAlone, Mode::GretaCo, Mode::EngineAlone, Mode::EngineCo];

impl Mode {
    fn name(&self) -> &'static str {
        match self {
            Mode::HamletAlone => "hamlet-alone",
            Mode::HamletCoShared => "hamlet-co-shared",
            Mode::HamletCoNonShared => "hamlet-co-nonshared",
            Mode::HamletCoAdaptive => "hamlet-co-adaptive",
            Mode::GretaAlone => "greta-alone",
            Mode::GretaCo => "greta-co",
            Mode::EngineAlone => "engine-alone",
            Mode::EngineCo => "engine-co",
        }
    }
    fn is_co(&self) -> bool {
        matches!(self, Mode::HamletCoShared | Mode::HamletCoNonShared | Mode::HamletCoAdaptive | Mode::GretaCo | Mode::EngineCo)
    }
    fn alone(&self) -> Mode {
        match self {
            Mode::HamletCoShared | Mode::HamletCoNonShared | Mode::HamletCoAdaptive => Mode::HamletAlone,
            Mode::GretaCo => Mode::GretaAlone,
            Mode::EngineCo => Mode::EngineAlone,
            m => *m,
        }
    }
}

/// HamletAggregator built the way the engine (compile_ops_with_sequences) and the crate's own unit
/// tests build it: add_sequence per query, add_kleene at (first state of the query + step position).
fn run_hamlet(queries: &[Query], stream: &[u8], mode: Mode) -> Vec<u64> {
    let mut b = TemplateBuilder::new();
    let mut base = 0u16;
    for (qi, q) in queries.iter().enumerate() {
        let names: Vec<&str> = q.steps.iter().map(|s| TYPES[s.0 as usize]).collect();
        b.add_sequence(qi as u32, &names);
        for (p, s) in q.steps.iter().enumerate() {
            if s.1 {
                b.add_kleene(qi as u32, TYPES[s.0 as usize], base + p as u16);
            }
        }
        base += q.steps.len() as u16 + 1;
    }
    let template = b.build();
    let regs: Vec<QueryRegistration> = queries
        .iter()
        .enumerate()
        .map(|(qi, q)| QueryRegistration {
            id: qi as u32,
            event_types: q.steps.iter().map(|s| template.type_index(TYPES[s.0 as usize]).expect("type")).collect(),
            kleene_types: q.steps.iter().filter(|s| s.1).map(|s| template.type_index(TYPES[s.0 as usize]).expect("type")).collect(),
            aggregate: GretaAggregate::CountTrends,
        })
        .collect();
    let optimizer = match mode {
        Mode::HamletCoNonShared => OptimizerConfig { min_queries: 1000, adaptive: false, ..Default::default() },
        Mode::HamletCoShared => OptimizerConfig { min_queries: 2, adaptive: false, ..Default::default() },
        // burst-driven: re-evaluate after every graphlet, switch as soon as the benefit changes sign
        Mode::HamletCoAdaptive => OptimizerConfig { min_graphlet_size: 2, min_queries: 2, switch_threshold: 0.0, reevaluate_interval: 1, adaptive: true },
        _ => OptimizerConfig::default(),
    };
    let mut agg = HamletAggregator::new(HamletConfig { optimizer, window_ms: 60_000, incremental: false }, template);
    for r in regs {
        agg.register_query(r);
    }
    for e in events_of(stream) {
        agg.process(Arc::new(e));
    }
    let res = agg.flush();
    let mut out = vec![0u64; queries.len()];
    for r in res {
        if (r.query_id as usize) < out.len() {
            out[r.query_id as usize] = r.value;
        }
    }
    out
}

fn run_greta(queries: &[Query], stream: &[u8]) -> Vec<u64> {
    let mut g = GretaExecutor::new();
    let idx: Vec<u16> = TYPES.iter().map(|t| g.register_type(Arc::from(*t))).collect();
    for (qi, q) in queries.iter().enumerate() {
        g.register_query(GretaQuery {
            id: qi as u32,
            pattern_id: qi as u32,
            event_types: q.steps.iter().map(|s| idx[s.0 as usize]).collect(),
            kleene_types: q.steps.iter().filter(|s| s.1).map(|s| idx[s.0 as usize]).collect(),
            aggregate: GretaAggregate::CountTrends,
            window_ms: 60_000,
            slide_ms: 60_000,
        });
    }
    for e in events_of(stream) {
        g.process(Arc::new(e));
    }
    let mut out = vec![0u64; queries.len()];
    for (id, c) in g.flush() {
        if (id as usize) < out.len() {
            out[id as usize] = c;
        }
    }
    out
}

thread_local! {
    static PROGRAMS: std::cell::RefCell<BTreeMap<String, Option<Arc<varpulis_core::ast::Program>>>> = const { std::cell::RefCell::new(BTreeMap::new()) };
}

fn program_text(queries: &[Query]) -> String {
    queries.iter().enumerate().map(|(i, q)| q.vpl(&format!("Q{}", i))).collect::<Vec<_>>().join("\n")
}

/// Last value each stream reported (None = the stream never reported anything). Err = rejected.
fn run_engine(queries: &[Query], stream: &[u8], rt: &tokio::runtime::Runtime) -> Result<Vec<Option<i64>>, String> {
    let src = program_text(queries);
    let program = PROGRAMS.with(|p| {
        p.borrow_mut().entry(src.clone()).or_insert_with(|| varpulis_parser::parse(&src).ok().map(Arc::new)).clone()
    });
    let program = program.ok_or_else(|| "parse error".to_string())?;
    let (tx, mut rx) = tokio::sync::mpsc::channel::<Event>(10_000);
    let mut engine = varpulis_runtime::engine::Engine::new(tx);
    engine.load(&*program).map_err(|e| format!("load: {}", e))?;
    let mut last: Vec<Option<i64>> = vec![None; queries.len()];
    for e in events_of(stream) {
        rt.block_on(engine.process(e)).map_err(|e| format!("process: {}", e))?;
        while let Ok(o) = rx.try_recv() {
            if let Some(i) = o.event_type.strip_prefix('Q').and_then(|s| s.parse::<usize>().ok()) {
                if i < last.len() {
                    last[i] = Some(get_i(&o, "n").unwrap_or(-1));
                }
            }
        }
    }
    Ok(last)
}

/// Value the mode reports for queries[target]; None = nothing reported; Err = program rejected / panic.
fn observe(mode: Mode, queries: &[Query], target: usize, stream: &[u8], rt: &tokio::runtime::Runtime) -> Result<Option<u64>, String> {
    let qs: Vec<Query> = if mode.is_co() { queries.to_vec() } else { vec![queries[target].clone()] };
    let t = if mode.is_co() { target } else { 0 };
    let r = catch(std::panic::AssertUnwindSafe(|| match mode {
        Mode::HamletAlone | Mode::HamletCoShared | Mode::HamletCoNonShared | Mode::HamletCoAdaptive => {
            let v = run_hamlet(&qs, stream, mode)[t];
            Ok(if v == 0 { None } else { Some(v) })
        }
        Mode::GretaAlone | Mode::GretaCo => {
            let v = run_greta(&qs, stream)[t];
            Ok(if v == 0 { None } else { Some(v) })
        }
        Mode::EngineAlone | Mode::EngineCo => run_engine(&qs, stream, rt).map(|v| v[t].map(|x| x.max(0) as u64)),
    }));
    match r {
        Ok(x) => x,
        Err(p) => Err(format!("panic: {} at {}", p, panic_site(&last_panic_location()))),
    }
}

// ---------------------------------------------------------------------------
// Judging one observation
// ---------------------------------------------------------------------------
#[derive(Clone, Copy, Debug, PartialEq, Eq, Hash, PartialOrd, Ord)]
enum Oracle {
    Brute,
    Alone,
}

impl Oracle {
    fn name(&self) -> &'static str {
        match self {
            Oracle::Brute => "vs-brute-force",
            Oracle::Alone => "vs-alone",
        }
    }
}

/// None = agrees; Some(kind).
fn mismatch(expected: u64, got: Option<u64>) -> Option<&'static str> {
    let g = got.unwrap_or(0);
    if g == expected {
        None
    } else if got.is_none() {
        Some("nothing-reported")
    } else if g > expected {
        Some("over-count")
    } else {
        Some("under-count")
    }
}

type GroupKey = (String, Mode, Oracle);

#[derive(Clone, Debug, Default)]
struct GroupStat {
    cases: u64,
    failures: u64,
    /// kind -> (companion label, stream text) of the smallest case (length-lexicographic, within the
    /// signature bound) that fails with this kind
    first_by_kind: BTreeMap<String, (String, String)>,
    /// witnesses of those smallest cases, overall smallest first
    witnesses: Vec<J>,
    /// failures on enumerated streams longer than the signature bound (thorough tier)
    failures_beyond_bound: u64,
    random_cases: u64,
    random_failures: u64,
    /// failures on enumerated streams within the signature bound, and a digest of exactly which cases
    /// fail with which reported value: the listed finding is this failure table, nothing coarser
    failures_within_bound: u64,
    table: u64,
}

fn comp_short(label: &str) -> &'static str {
    match label {
        "same-query-twice" => "dup",
        "1-overlapping-query" => "1ov",
        "2-overlapping-queries" => "2ov",
        "3-overlapping-queries" => "3ov",
        _ => "",
    }
}

/// (query shape, mode, oracle, for each failure kind the smallest failing stream [+ companion set]).
/// Everything is computed from a fixed enumeration, nothing from random data.
fn signature(key: &GroupKey, st: &GroupStat) -> String {
    let first_by_kind = &st.first_by_kind;
    if first_by_kind.is_empty() {
        return format!("{}/{}/{}/fails-only-beyond-the-signature-enumeration", key.0, key.1.name(), key.2.name());
    }
    let parts: Vec<String> = first_by_kind
        .iter()
        .map(|(kind, (comp, stream))| {
            let c = comp_short(comp);
            format!("{}@{}{}", kind, stream, if c.is_empty() { String::new() } else { format!(":{}", c) })
        })
        .collect();
    format!("{}/{}/{}/{}#{}:{:06x}", key.0, key.1.name(), key.2.name(), parts.join("+"), st.failures_within_bound, st.table & 0xff_ffff)
}

fn witness(queries: &[Query], target: usize, stream: &[u8], mode: Mode, oracle: Oracle, expected: u64, got: Option<u64>, brute_count: u64) -> J {
    json!({
        "query": queries[target].text(),
        "registered_queries_in_order": queries.iter().map(|q| q.text()).collect::<Vec<_>>(),
        "target_index": target,
        "stream": stream_text(stream),
        "events": "one event per letter, type = letter, ts = 2024-01-01T00:00:00Z + index ms",
        "mode": mode.name(),
        "oracle": oracle.name(),
        "expected": expected,
        "reported": got,
        "brute_force_trend_count": brute_count,
        "engine_program": if matches!(mode, Mode::EngineAlone | Mode::EngineCo) { json!(program_text(&if mode.is_co() { queries.to_vec() } else { vec![queries[target].clone()] })) } else { J::Null },
        "how": match mode {
            Mode::EngineAlone | Mode::EngineCo => "Engine::load(program); process events one by one; the last `n` emitted by the target stream is the reported count",
            Mode::GretaAlone | Mode::GretaCo => "GretaExecutor: register_type A,B,C; register_query per query; process events; flush()",
            _ => "HamletAggregator: TemplateBuilder.add_sequence + add_kleene(first state of the query + step position) per query (as engine/mod.rs does), register_query, process events, flush(); optimizer min_queries=2 adaptive=false (shared) / min_queries=1000 adaptive=false (non-shared) / reevaluate_interval=1 switch_threshold=0 min_graphlet_size=2 (adaptive, burst-driven)",
        },
    })
}

// ---------------------------------------------------------------------------
// Exhaustive lane
// ---------------------------------------------------------------------------
fn companion_sets(q: &Query, all: &[Query]) -> Vec<(String, Vec<Query>)> {
    let overl: Vec<Query> = all.iter().filter(|o| *o != q && o.overlaps(q)).cloned().collect();
    // spread the picks over the list: a same-length sibling, a reversed one, a longer/shorter one
    let pick = |k: usize| overl[(k * 7 + 3) % overl.len()].clone();
    vec![
        ("same-query-twice".to_string(), vec![q.clone()]),
        ("1-overlapping-query".to_string(), vec![pick(0)]),
        ("2-overlapping-queries".to_string(), vec![pick(1), pick(2)]),
        ("3-overlapping-queries".to_string(), vec![pick(0), pick(3), pick(4)]),
    ]
}

fn streams_upto(len: usize) -> Vec<Vec<u8>> {
    let mut out = vec![];
    for l in 1..=len {
        let total = 3usize.pow(l as u32);
        for code in 0..total {
            let mut c = code;
            let mut s = vec![0u8; l];
            for i in (0..l).rev() {
                s[i] = (c % 3) as u8;
                c /= 3;
            }
            out.push(s);
        }
    }
    out
}

struct ExhOut {
    stats: BTreeMap<GroupKey, GroupStat>,
    partial: Partial,
}

fn exhaustive_group(q: &Query, mode: Mode, all: &[Query], maxlen: usize, sig_bound: usize, rt: &tokio::runtime::Runtime) -> ExhOut {
    let mut stats: BTreeMap<GroupKey, GroupStat> = BTreeMap::new();
    let mut partial = Partial::default();
    let shape = q.shape();
    let sets: Vec<(String, Vec<Query>)> = if mode.is_co() { companion_sets(q, all) } else { vec![("no-other-query".to_string(), vec![])] };
    let oracles: &[Oracle] = if mode.is_co() { &[Oracle::Brute, Oracle::Alone] } else { &[Oracle::Brute] };
    for o in oracles {
        stats.insert((shape.clone(), mode, *o), GroupStat::default());
    }
    for stream in streams_upto(maxlen) {
        let bf = brute(q, &stream);
        let alone = if mode.is_co() { Some(observe(mode.alone(), std::slice::from_ref(q), 0, &stream, rt)) } else { None };
        for (label, comps) in &sets {
            let mut queries = vec![q.clone()];
            queries.extend(comps.iter().cloned());
            partial.eval();
            if bf >= 3 {
                partial.nontrivial(&(q.clone(), mode, label.clone(), stream.clone()));
            }
            let got = match observe(mode, &queries, 0, &stream, rt) {
                Ok(g) => g,
                Err(e) => {
                    if e.starts_with("panic") {
                        partial.violation(&format!("{}/{}/panic", shape, mode.name()), "panic in the trend aggregation code", json!({"queries": queries.iter().map(|q| q.text()).collect::<Vec<_>>(), "stream": stream_text(&stream), "error": e}));
                    } else {
                        partial.add(&format!("rejected:{}:{}", mode.name(), shape), 1);
                        if partial.samples.len() < 2 {
                            partial.sample(json!({"rejected_program": program_text(&queries), "error": e}));
                        }
                    }
                    continue;
                }
            };
            for o in oracles {
                let expected = match o {
                    Oracle::Brute => bf,
                    Oracle::Alone => match &alone {
                        Some(Ok(a)) => a.unwrap_or(0),
                        _ => continue,
                    },
                };
                let st = stats.get_mut(&(shape.clone(), mode, *o)).unwrap();
                st.cases += 1;
                partial.add("comparisons", 1);
                if let Some(kind) = mismatch(expected, got) {
                    st.failures += 1;
                    if stream.len() <= sig_bound {
                        st.failures_within_bound += 1;
                        st.table = hash64(&(st.table, label.as_str(), stream_text(&stream), expected, got));
                    }
                    if stream.len() > sig_bound {
                        st.failures_beyond_bound += 1;
                    } else if !st.first_by_kind.contains_key(kind) {
                        st.first_by_kind.insert(kind.to_string(), (label.clone(), stream_text(&stream)));
                        let mut w = witness(&queries, 0, &stream, mode, *o, expected, got, bf);
                        w["kind"] = json!(kind);
                        w["lane"] = json!("exhaustive: smallest stream (length-lexicographic over {A,B,C}) failing with this kind");
                        st.witnesses.push(w);
                    }
                }
            }
        }
    }
    ExhOut { stats, partial }
}

// ---------------------------------------------------------------------------
// Random lane
// ---------------------------------------------------------------------------
fn bursty_stream(rng: &mut Rng, maxlen: usize) -> Vec<u8> {
    let len = 3 + rng.below(maxlen - 2);
    let mut s = vec![];
    while s.len() < len {
        let t = rng.below(3) as u8;
        let run = match rng.below(4) {
            0 => 1,
            1 => 2,
            2 => 1 + rng.below(4),
            _ => 3 + rng.below(4),
        };
        for _ in 0..run {
            if s.len() < len {
                s.push(t);
            }
        }
    }
    s
}

fn main() {
    let args = Args::parse();
    install_quiet_panic_hook();
    watchdog("C25", args.pick(900, 7200));
    let mut rep = Report::new("C25", "exploration", &args);
    // signatures are computed on the same enumeration in both tiers (tier-independent); the thorough
    // tier enumerates longer streams on top and attributes their failures to the group's signature
    const SIG_BOUND: usize = 5;
    const SIG_BOUND_ENGINE: usize = 4;
    let maxlen = args.pick(SIG_BOUND, 7usize);
    let engine_maxlen = args.pick(SIG_BOUND_ENGINE, 6usize);
    rep.rule = format!("queries: the 54 sequences of 2-3 distinct types of {{A,B,C}} with 1-2 Kleene steps (9 shapes s-K, K-s, K-K, K-s-s, s-K-s, s-s-K, K-K-s, K-s-K, s-K-K). exhaustive lane: for each of the 9 shapes (canonical types A,B,C) x 8 modes (hamlet alone / co-registered with forced shared, forced non-shared, burst-driven adaptive optimizer; greta alone / co-registered; engine alone / co-registered) x, for co modes, 4 fixed companion sets (same query twice; 1, 2, 3 other queries sharing a Kleene type) every stream over {{A,B,C}} of length <= {} (engine modes <= {}) in length-lexicographic order; signatures use the streams of length <= {} (engine {}) only. random lane: 1-4 random queries (at least one overlapping pair when >1), random target, bursty streams of 3-12 events (runs of 1-6 equal types), all 8 modes. Non-trivial: brute-force count >= 3; distinct by (queries, mode, stream).", maxlen, engine_maxlen, SIG_BOUND, SIG_BOUND_ENGINE);
    rep.assume("a trend of `T1 -> all T2 -> T3` is one T1 event, a non-empty increasing subsequence of later T2 events and one T3 event after the last of them (docs/reference/trend-aggregation.md: 2^n-1 per burst; ADR-005); count_trends() is the number of trends in the window; all streams lie inside one 60 s window");
    rep.assume("HamletAggregator / GretaExecutor report through flush(); a query missing from the flush result reports 0. The engine never flushes its aggregators, so its reported count is the last `count` the stream emitted (incremental results), and no emission means 0");
    rep.assume("the direct HamletAggregator is assembled exactly as engine/mod.rs and the crate's unit tests assemble it (add_kleene at first-state + step position)");

    if let Some(path) = args.replay.clone() {
        let doc: J = serde_json::from_str(&std::fs::read_to_string(&path).expect("replay file")).expect("json");
        let w = &doc["witness"];
        let all = all_queries();
        let queries: Vec<Query> = w["registered_queries_in_order"].as_array().cloned().unwrap_or_default().iter().filter_map(|t| all.iter().find(|q| Some(q.text().as_str()) == t.as_str()).cloned()).collect();
        let stream: Vec<u8> = w["stream"].as_str().unwrap_or("").chars().filter_map(|c| TYPES.iter().position(|t| t.starts_with(c)).map(|i| i as u8)).collect();
        let target = w["target_index"].as_u64().unwrap_or(0) as usize;
        let rt = rt();
        println!("signature: {}\nqueries: {:?}\ntarget: {}\nstream: {}\nbrute force: {}", doc["signature"], queries.iter().map(|q| q.text()).collect::<Vec<_>>(), target, stream_text(&stream), brute(&queries[target], &stream));
        for m in MODES {
            println!("  {:<22} {:?}", m.name(), observe(m, &queries, target, &stream, &rt));
        }
        std::process::exit(0);
    }

    let all = Arc::new(all_queries());
    let canon = canonical_queries();
    // ---------------- exhaustive lane: (shape, mode) groups spread over the threads ----------------
    let mut groups: Vec<(Query, Mode)> = vec![];
    for m in MODES {
        for q in &canon {
            groups.push((q.clone(), m));
        }
    }
    // engine groups first (slowest), round-robin over threads
    groups.sort_by_key(|g| !matches!(g.1, Mode::EngineCo | Mode::EngineAlone));
    let groups = Arc::new(groups);
    let threads = ncpu();
    let (g2, a2) = (groups.clone(), all.clone());
    let outs = parallel(threads, 0xC25, move |ti, _rng| {
        let rt = rt();
        let mut v = vec![];
        let mut i = ti;
        while i < g2.len() {
            let (q, m) = &g2[i];
            let eng = matches!(m, Mode::EngineAlone | Mode::EngineCo);
            v.push(exhaustive_group(q, *m, &a2, if eng { engine_maxlen } else { maxlen }, if eng { SIG_BOUND_ENGINE } else { SIG_BOUND }, &rt));
            i += threads;
        }
        v
    });
    let mut stats: BTreeMap<GroupKey, GroupStat> = BTreeMap::new();
    for o in outs.into_iter().flatten() {
        for (k, s) in o.stats {
            stats.insert(k, s);
        }
        rep.merge(o.partial);
    }
    rep.exhaustive = Some(true);
    // verdicts of the exhaustive lane (recorded first so that the stored witnesses are the smallest ones)
    for (k, s) in &stats {
        if s.failures > 0 {
            let sig = signature(k, s);
            let what = format!("{} {} for shape {}: {} of {} enumerated cases differ", k.1.name(), k.2.name(), k.0, s.failures, s.cases);
            for w in &s.witnesses {
                rep.violation(&sig, &what, w.clone());
            }
            let recorded = s.witnesses.len() as u64;
            if s.failures > recorded {
                *rep.sig_counts.entry(sig.clone()).or_insert(0) += s.failures - recorded;
            }
        }
    }

    // ---------------- random lane ----------------
    let sigs: Arc<BTreeMap<GroupKey, String>> = Arc::new(stats.iter().map(|(k, s)| (k.clone(), signature(k, s))).collect());
    let cases_per_thread = args.pick(1500usize, 60_000usize) / threads + 1;
    let (a3, s3) = (all.clone(), sigs.clone());
    let outs = parallel(threads, args.seed ^ 0xC25, move |ti, mut rng| {
        let rt = rt();
        let mut out = Partial::default();
        let mut local: BTreeMap<GroupKey, (u64, u64)> = BTreeMap::new();
        for ci in 0..cases_per_thread {
            let nq = 1 + rng.below(4);
            let mut queries: Vec<Query> = vec![rng.pick(&a3).clone()];
            while queries.len() < nq {
                let c = rng.pick(&a3).clone();
                if queries.len() == 1 && !c.overlaps(&queries[0]) && rng.chance(4, 5) {
                    continue;
                }
                queries.push(c);
            }
            rng.shuffle(&mut queries);
            let target = rng.below(queries.len());
            let stream = bursty_stream(&mut rng, 12);
            let bf = brute(&queries[target], &stream);
            let shape = queries[target].shape();
            if ci == 0 && ti == 0 {
                out.sample(json!({"lane": "random", "queries": queries.iter().map(|q| q.text()).collect::<Vec<_>>(), "target": target, "stream": stream_text(&stream), "brute_force": bf}));
            }
            // engine modes are ~100x slower: sample them
            let with_engine = ci % 4 == 0;
            let mut alone_cache: BTreeMap<Mode, Result<Option<u64>, String>> = BTreeMap::new();
            for m in MODES {
                if matches!(m, Mode::EngineAlone | Mode::EngineCo) && !with_engine {
                    continue;
                }
                if m.is_co() && queries.len() == 1 {
                    continue;
                }
                out.eval();
                if bf >= 3 {
                    out.nontrivial(&(queries.clone(), m, stream.clone()));
                }
                let got = match observe(m, &queries, target, &stream, &rt) {
                    Ok(g) => g,
                    Err(e) => {
                        if e.starts_with("panic") {
                            out.violation(&format!("{}/{}/panic", shape, m.name()), "panic in the trend aggregation code", json!({"queries": queries.iter().map(|q| q.text()).collect::<Vec<_>>(), "stream": stream_text(&stream), "error": e}));
                        } else {
                            out.add(&format!("rejected:{}:{}", m.name(), shape), 1);
                        }
                        continue;
                    }
                };
                if !m.is_co() {
                    alone_cache.insert(m, Ok(got));
                }
                let mut checks = vec![(Oracle::Brute, bf)];
                if m.is_co() {
                    let a = alone_cache.entry(m.alone()).or_insert_with(|| observe(m.alone(), &queries, target, &stream, &rt)).clone();
                    if let Ok(a) = a {
                        checks.push((Oracle::Alone, a.unwrap_or(0)));
                    }
                }
                for (o, expected) in checks {
                    let key = (shape.clone(), m, o);
                    let e = local.entry(key.clone()).or_insert((0, 0));
                    e.0 += 1;
                    out.add("comparisons", 1);
                    if let Some(kind) = mismatch(expected, got) {
                        e.1 += 1;
                        let sig = s3.get(&key).cloned().unwrap_or_else(|| signature(&key, &GroupStat::default()));
                        let mut w = witness(&queries, target, &stream, m, o, expected, got, bf);
                        w["kind"] = json!(kind);
                        w["lane"] = json!("random");
                        out.violation(&sig, "reported trend count differs (random lane)", w);
                    }
                }
            }
        }
        (out, local)
    });
    for (p, local) in outs {
        for (k, (c, f)) in local {
            let s = stats.entry(k).or_default();
            s.random_cases += c;
            s.random_failures += f;
        }
        rep.merge(p);
    }

    // ---------------- agreement table ----------------
    let mut table = serde_json::Map::new();
    let mut agree: Vec<String> = vec![];
    for (k, s) in &stats {
        let name = format!("{}/{}/{}", k.0, k.1.name(), k.2.name());
        if s.failures == 0 && s.random_failures == 0 && s.cases + s.random_cases > 0 {
            agree.push(name.clone());
        }
        table.insert(
            name,
            json!({"enumerated_cases": s.cases, "enumerated_failures": s.failures, "enumerated_failures_beyond_signature_bound": s.failures_beyond_bound, "random_cases": s.random_cases, "random_failures": s.random_failures,
                   "smallest_failing_by_kind": s.first_by_kind.iter().map(|(k, (c, st))| (k.clone(), json!({"companions": c, "stream": st}))).collect::<serde_json::Map<_, _>>()}),
        );
    }
    rep.set("agreement_table", J::Object(table));
    rep.set("groups_that_agree_on_everything_observed", json!(agree));
    std::process::exit(rep.finish());
}
