//! Scratch tool: probe <program.vpl> <events.evt> — run the real engine, print outputs per input event.
use varpulis_runtime::event_file::EventFileParser;
use vh::eng::*;
fn main() {
    let a: Vec<String> = std::env::args().collect();
    let src = std::fs::read_to_string(&a[1]).expect("program");
    let evs = std::fs::read_to_string(&a[2]).expect("events");
    let events: Vec<_> = EventFileParser::parse(&evs).expect("evt").into_iter().map(|t| t.event).collect();
    let rt = rt();
    match run_per_event(&rt, &src, &events) {
        Ok(outs) => {
            for (i, o) in outs.iter().enumerate() {
                println!("#{} {} -> {}", i, event_json(&events[i]), events_json(o));
            }
        }
        Err(e) => println!("ERR {}", e),
    }
}
