//! C42 — declaration for-loops expand to the same program as writing the copies by hand.
//! Monitor: differential. A loop tree (depth <= 2, ranges of length 0-6, `..` and `..=`) over a
//! small grammar of declarations with `{var}` placeholders is rendered twice: once as VPL text
//! with top-level `for v in a..b:` blocks, once expanded BY THE HARNESS (own substitution over
//! the tree, not over lines). Both texts go through the real `parse`; the two ASTs are compared
//! statement by statement, order included, with spans stripped.
#[path = "../vplmut.rs"]
mod vplmut;

use serde_json::{json, Value as J};
use vh::*;

// ---------------------------------------------------------------------------
// Loop tree
// ---------------------------------------------------------------------------
#[derive(Clone, Debug)]
enum Item {
    /// A declaration: first line at the item's indentation, the others are given with their
    /// own relative indentation already included.
    Decl(Vec<String>),
    /// A comment or blank line inside a body / at top level.
    Trivia(String),
    /// `end_var`: the upper bound is the placeholder of an enclosing loop variable (triangular nest)
    Loop { var: String, start: i64, end: i64, end_var: Option<String>, inclusive: bool, spaced: bool, body: Vec<Item> },
}

fn values(start: i64, end: i64, inclusive: bool) -> Vec<i64> {
    let mut v = vec![];
    let mut x = start;
    while if inclusive { x <= end } else { x < end } {
        v.push(x);
        x += 1;
    }
    v
}

/// The text with loops, as a user would write it.
fn render_loops(items: &[Item], indent_unit: &str, depth: usize, out: &mut String) {
    let pad = indent_unit.repeat(depth);
    for it in items {
        match it {
            Item::Decl(lines) => {
                for l in lines {
                    out.push_str(&pad);
                    out.push_str(l);
                    out.push('\n');
                }
            }
            Item::Trivia(l) => {
                if l.is_empty() {
                    out.push('\n');
                } else {
                    out.push_str(&pad);
                    out.push_str(l);
                    out.push('\n');
                }
            }
            Item::Loop { var, start, end, end_var, inclusive, spaced, body } => {
                out.push_str(&pad);
                let dots = if *inclusive { "..=" } else { ".." };
                let end_txt = match end_var {
                    Some(v) => format!("{{{}}}", v),
                    None => end.to_string(),
                };
                if *spaced {
                    out.push_str(&format!("for {} in {} {} {}:\n", var, start, dots, end_txt));
                } else {
                    out.push_str(&format!("for {} in {}{}{}:\n", var, start, dots, end_txt));
                }
                render_loops(body, indent_unit, depth + 1, out);
            }
        }
    }
}

/// Own substitution: every `{var}` of the environment replaced by its value, innermost
/// binding first (variables are distinct, so the order is immaterial).
fn subst(line: &str, env: &[(String, i64)]) -> String {
    let mut s = String::new();
    let cs: Vec<char> = line.chars().collect();
    let mut i = 0;
    'outer: while i < cs.len() {
        if cs[i] == '{' {
            for (v, val) in env.iter().rev() {
                let vc: Vec<char> = v.chars().collect();
                if cs[i + 1..].starts_with(&vc) && cs.get(i + 1 + vc.len()) == Some(&'}') {
                    s.push_str(&val.to_string());
                    i += vc.len() + 2;
                    continue 'outer;
                }
            }
        }
        s.push(cs[i]);
        i += 1;
    }
    s
}

/// The hand expansion: the sequence of body copies, in order, nested loops as nested substitutions.
fn render_hand(items: &[Item], env: &mut Vec<(String, i64)>, out: &mut String) {
    for it in items {
        match it {
            Item::Decl(lines) => {
                for l in lines {
                    out.push_str(&subst(l, env));
                    out.push('\n');
                }
            }
            Item::Trivia(l) => {
                out.push_str(&subst(l, env));
                out.push('\n');
            }
            Item::Loop { var, start, end, end_var, inclusive, body, .. } => {
                // a bound written as the placeholder of an enclosing variable takes that variable's value
                let end_val = match end_var {
                    Some(v) => env.iter().rev().find(|(n, _)| n == v).map(|(_, x)| *x).unwrap_or(*end),
                    None => *end,
                };
                for val in values(*start, end_val, *inclusive) {
                    env.push((var.clone(), val));
                    render_hand(body, env, out);
                    env.pop();
                }
            }
        }
    }
}

// ---------------------------------------------------------------------------
// Generator
// ---------------------------------------------------------------------------
fn ph(rng: &mut Rng, vars: &[String]) -> String {
    // a placeholder of one of the enclosing loop variables (or, rarely, two adjacent ones)
    if vars.is_empty() {
        return "7".into();
    }
    let v = &vars[rng.below(vars.len())];
    if vars.len() >= 2 && rng.chance(1, 3) {
        format!("{{{}}}{{{}}}", vars[0], vars[1])
    } else {
        format!("{{{}}}", v)
    }
}

/// Value-position placeholder (where a negative number is fine), or a literal.
fn phv(rng: &mut Rng, vars: &[String]) -> String {
    if vars.is_empty() || rng.chance(1, 4) {
        return format!("{}", rng.below(5));
    }
    format!("{{{}}}", vars[rng.below(vars.len())])
}

fn gen_decl(rng: &mut Rng, vars: &[String]) -> Vec<String> {
    match rng.below(9) {
        0 => {
            if rng.chance(1, 2) {
                vec![format!("context c{}", ph(rng, vars))]
            } else {
                vec![format!("context c{} (cores: [{}, 1])", ph(rng, vars), phv(rng, vars))]
            }
        }
        1 | 2 | 3 => {
            let mut l = vec![format!("stream S{} = E{}", ph(rng, vars), ph(rng, vars))];
            let nops = rng.below(4);
            for _ in 0..nops {
                let op = match rng.below(7) {
                    0 => format!("    .where(x > {})", phv(rng, vars)),
                    1 => format!("    .where(x > {} and y < {} + 1)", phv(rng, vars), phv(rng, vars)),
                    2 => format!("    .context(c{})", ph(rng, vars)),
                    3 => format!("    .emit(v: x + {}, tag: \"t{}\")", phv(rng, vars), ph(rng, vars)),
                    4 => format!("    .process(f({} * 250, {} * 10, 3))", phv(rng, vars), phv(rng, vars)),
                    5 => "    .window(5s)".to_string(),
                    _ => format!("    .to(Out, topic: \"tiles/{}\")", ph(rng, vars)),
                };
                l.push(op);
            }
            l
        }
        4 => vec![
            format!("event Ev{}:", ph(rng, vars)),
            "    a: int".to_string(),
            format!("    b{}: str", ph(rng, vars)),
        ],
        5 => vec![format!("connector K{} = mqtt (host: \"h{}\", port: {})", ph(rng, vars), ph(rng, vars), 1000 + rng.below(5))],
        6 => vec![format!("let v{} = {} * 2 + {}", ph(rng, vars), phv(rng, vars), phv(rng, vars))],
        7 => vec![
            format!("fn g{}(x: int) -> int:", ph(rng, vars)),
            format!("    let y = x + {}", phv(rng, vars)),
            format!("    return y * {}", phv(rng, vars)),
        ],
        _ => vec![format!("const C{} = \"v{}-{}\"", ph(rng, vars), ph(rng, vars), ph(rng, vars))],
    }
}

fn gen_body(rng: &mut Rng, vars: &mut Vec<String>, depth: usize) -> Vec<Item> {
    let mut body = vec![];
    let n = 1 + rng.below(3);
    let mut have_decl = false;
    for k in 0..n {
        if rng.chance(1, 6) {
            body.push(Item::Trivia(format!("# tile {}", ph(rng, vars))));
        }
        if k > 0 && rng.chance(1, 4) {
            body.push(Item::Trivia(String::new()));
        }
        if depth < 2 && rng.chance(1, 3) {
            body.push(gen_loop(rng, vars, depth + 1));
            // the loop header's own body must come first in a body: a nested loop is an item like any other
            have_decl = true;
        } else {
            body.push(Item::Decl(gen_decl(rng, vars)));
            have_decl = true;
        }
    }
    if !have_decl {
        body.push(Item::Decl(gen_decl(rng, vars)));
    }
    // a body must start with a non-trivia line so that its indentation is defined by a real line
    if matches!(body.first(), Some(Item::Trivia(t)) if t.is_empty()) {
        body.remove(0);
    }
    body
}

fn gen_loop(rng: &mut Rng, vars: &mut Vec<String>, depth: usize) -> Item {
    let names = ["i", "j", "row", "col", "k", "n"];
    let mut var = names[rng.below(names.len())].to_string();
    while vars.contains(&var) {
        var = names[rng.below(names.len())].to_string();
    }
    let len = rng.below(7) as i64; // 0..=6 iterations
    let start = if rng.chance(1, 8) { -(rng.below(3) as i64) - 1 } else { rng.below(4) as i64 };
    let inclusive = rng.chance(1, 2);
    let end = if inclusive { start + len - 1 } else { start + len };
    // triangular nest: the inner bound is the outer variable (only when that keeps ranges small)
    let end_var = if !vars.is_empty() && start >= 0 && rng.chance(1, 3) { Some(vars[rng.below(vars.len())].clone()) } else { None };
    vars.push(var.clone());
    let body = gen_body(rng, vars, depth);
    vars.pop();
    Item::Loop { var, start, end, end_var, inclusive, spaced: rng.chance(1, 8), body }
}

fn gen_program(rng: &mut Rng) -> Vec<Item> {
    let mut items = vec![];
    let mut vars = vec![];
    if rng.chance(1, 2) {
        items.push(Item::Decl(vec!["connector Out = mqtt (host: \"localhost\", port: 1883)".to_string()]));
        if rng.chance(1, 2) {
            items.push(Item::Trivia(String::new()));
        }
    }
    let nloops = 1 + rng.below(2);
    for _ in 0..nloops {
        items.push(gen_loop(rng, &mut vars, 1));
        match rng.below(3) {
            0 => items.push(Item::Trivia(String::new())),
            1 => items.push(Item::Decl(gen_decl(rng, &[]))),
            _ => {}
        }
    }
    if rng.chance(1, 2) {
        items.push(Item::Decl(vec!["fn f(a: int, b: int, c: int) -> int:".to_string(), "    return a + b + c".to_string()]));
    }
    items
}

// ---------------------------------------------------------------------------
// Features of a program (for the non-triviality rule and signatures)
// ---------------------------------------------------------------------------
#[derive(Default)]
struct Feat {
    max_depth: usize,
    /// some loop with >= 2 iterations whose body (own lines, nested included) uses its variable >= 2 times
    rich: bool,
    any_inclusive: bool,
    any_exclusive: bool,
    any_empty: bool,
}

fn count_uses(items: &[Item], var: &str) -> usize {
    let pat = format!("{{{}}}", var);
    items
        .iter()
        .map(|it| match it {
            Item::Decl(ls) => ls.iter().map(|l| l.matches(&pat).count()).sum(),
            Item::Trivia(_) => 0,
            Item::Loop { body, .. } => count_uses(body, var),
        })
        .sum()
}

fn features(items: &[Item], depth: usize, f: &mut Feat) {
    for it in items {
        if let Item::Loop { var, start, end, inclusive, body, .. } = it {
            f.max_depth = f.max_depth.max(depth + 1);
            let n = values(*start, *end, *inclusive).len();
            if n >= 2 && count_uses(body, var) >= 2 {
                f.rich = true;
            }
            if n == 0 {
                f.any_empty = true;
            }
            if *inclusive {
                f.any_inclusive = true;
            } else {
                f.any_exclusive = true;
            }
            features(body, depth + 1, f);
        }
    }
}

// ---------------------------------------------------------------------------
// AST comparison with spans stripped
// ---------------------------------------------------------------------------
fn strip_spans(v: J) -> J {
    match v {
        J::Object(m) => {
            if m.len() == 2 && m.contains_key("node") && m.contains_key("span") {
                let sp = &m["span"];
                if sp.as_object().map(|o| o.len() == 2 && o.contains_key("start") && o.contains_key("end")).unwrap_or(false) {
                    return strip_spans(m["node"].clone());
                }
            }
            J::Object(m.into_iter().map(|(k, v)| (k, strip_spans(v))).collect())
        }
        J::Array(a) => J::Array(a.into_iter().map(strip_spans).collect()),
        other => other,
    }
}

fn ast_of(src: &str) -> Result<Vec<J>, String> {
    match varpulis_parser::parse(src) {
        Ok(p) => {
            let mut v = vec![];
            for s in &p.statements {
                match serde_json::to_value(s) {
                    Ok(j) => v.push(strip_spans(j)),
                    // not serialisable as JSON (e.g. a non-finite float key): fall back to Debug of the node
                    Err(_) => v.push(J::String(format!("{:?}", s.node))),
                }
            }
            Ok(v)
        }
        Err(e) => Err(e.to_string()),
    }
}

fn check(items: &[Item], indent_unit: &str, out: &mut Partial) {
    let mut with_loops = String::new();
    render_loops(items, indent_unit, 0, &mut with_loops);
    let mut by_hand = String::new();
    render_hand(items, &mut vec![], &mut by_hand);
    let mut f = Feat::default();
    features(items, 0, &mut f);
    let shape = if f.max_depth >= 2 { "nested" } else { "flat" };
    out.eval();
    let r = catch(std::panic::AssertUnwindSafe(|| (ast_of(&with_loops), ast_of(&by_hand))));
    let (a, b) = match r {
        Ok(x) => x,
        Err(p) => {
            out.violation("panic/parse", "parse panicked", json!({"with_loops": with_loops, "by_hand": by_hand, "panic": p}));
            return;
        }
    };
    match (a, b) {
        (Ok(a), Ok(b)) => {
            out.add("both_parsed", 1);
            out.add("statements_compared", a.len().max(b.len()) as u64);
            if f.rich {
                out.nontrivial(&with_loops);
            }
            if a == b {
                if out.samples.len() < 2 && f.rich && f.max_depth >= 2 {
                    out.sample(json!({"with_loops": with_loops, "by_hand": by_hand, "statements": a.len()}));
                }
                return;
            }
            let (kind, detail) = if a.len() != b.len() {
                ("statement-count", json!({"loop_program_statements": a.len(), "hand_program_statements": b.len()}))
            } else {
                let i = (0..a.len()).find(|&i| a[i] != b[i]).unwrap_or(0);
                ("statement-content", json!({"first_differing_statement": i, "loop_program": a[i], "hand_program": b[i]}))
            };
            out.violation(
                &format!("ast-differs/{}/{}", kind, shape),
                "the program with declaration loops parses to a different AST than its hand expansion",
                json!({"with_loops": with_loops, "by_hand": by_hand, "difference": detail}),
            );
        }
        (Err(_), Err(_)) => {
            out.add("both_rejected", 1);
            if out.counters.get("both_rejected").copied().unwrap_or(0) <= 1 {
                out.sample(json!({"both_rejected": with_loops}));
            }
        }
        (Ok(_), Err(e)) => out.violation(
            &format!("parse-result-differs/hand-expansion-rejected/{}", shape),
            "the loop program parses but its hand expansion is rejected",
            json!({"with_loops": with_loops, "by_hand": by_hand, "hand_error": e}),
        ),
        (Err(e), Ok(_)) => out.violation(
            &format!("parse-result-differs/loop-program-rejected/{}", shape),
            "the hand expansion parses but the loop program is rejected",
            json!({"with_loops": with_loops, "by_hand": by_hand, "loop_error": e}),
        ),
    }
}

fn main() {
    let args = Args::parse();
    install_quiet_panic_hook();
    watchdog("C42", args.pick(600, 3600));
    let mut rep = Report::new("C42", "exploration", &args);
    rep.rule = "random programs: optional leading connector, 1-2 top-level `for v in a..b:` / `a..=b` loops (0-6 iterations, start -3..3, optional blanks around the dots) whose bodies hold 1-3 items out of {context, stream with 0-3 indented op lines, event block, connector, let, fn block, const with string, comment line, blank line, nested loop (depth <= 2, distinct variable)}, placeholders `{v}` of any enclosing variable in names, expressions, strings and comments, indentation unit 4 spaces / 2 spaces / tab, other declarations between and after the loops. Non-trivial: both texts parse and some loop has >= 2 iterations and >= 2 uses of its placeholder in its body; distinct by program text.".into();
    rep.assume("hand expansion = the harness's own substitution over the loop tree: body copies in range order, `{v}` replaced textually by the decimal value, nested loops as nested substitutions; nested loops use distinct variable names (shadowing is not defined by the statement)");
    rep.assume("ASTs are compared as serde_json values of each Spanned<Stmt> with every {node, span:{start,end}} wrapper replaced by its node");

    if let Some(path) = args.replay.clone() {
        let doc: J = serde_json::from_str(&std::fs::read_to_string(&path).expect("replay file")).expect("json");
        let a = doc["witness"]["with_loops"].as_str().unwrap_or("");
        let b = doc["witness"]["by_hand"].as_str().unwrap_or("");
        let (x, y) = (ast_of(a), ast_of(b));
        println!("with_loops -> {}", match &x { Ok(v) => format!("{} statements", v.len()), Err(e) => format!("Err({})", e) });
        println!("by_hand    -> {}", match &y { Ok(v) => format!("{} statements", v.len()), Err(e) => format!("Err({})", e) });
        println!("equal: {}", x == y);
        return;
    }

    // one single-threaded worker PROCESS per core (see vplmut::run_workers for why)
    let per_worker = args.pick(600usize, 15_000usize);
    if let Some(w) = args.opt("--worker").and_then(|x| x.parse::<u64>().ok()) {
        let mut rng = Rng::new(args.seed).fork(w + 1);
        let mut out = Partial::default();
        for _ in 0..per_worker {
            let items = gen_program(&mut rng);
            let unit = *rng.pick(&["    ", "    ", "  ", "\t"]);
            check(&items, unit, &mut out);
        }
        vplmut::worker_emit(&out);
    }
    let (parts, problems) = vplmut::run_workers(ncpu());
    for p in parts {
        rep.merge(p);
    }
    for p in problems {
        rep.inconclusive(&p);
    }
    std::process::exit(rep.finish());
}
