//! C19 — checkpoint + restore is invisible in the output.
//!
//! Monitor (differential between two runs of the real engine): for a program P and an input
//! sequence S, engine R processes S step by step (reference); after every step c its state is
//! captured with `Engine::create_checkpoint()` (a `&self` method, so R itself is the engine that
//! "processes S[..c] and checkpoints"). For EVERY cut c the checkpoint goes through the real codec
//! (`codec::serialize(.., Json)` -> `codec::deserialize`), is restored into a freshly loaded
//! engine (`load` + `restore_checkpoint`) which then processes S[c..]. The outputs of every step
//! after the cut must equal R's outputs for that step (ordered), and the engine variables at the
//! end must be equal.
//!
//! Signatures (tuples over finite enumerations):
//!   restore/<stream kind>/<how>/<component>      the usual form. <stream kind> = operator family of the
//!       stream whose own output diverged first (window-<kind>[-partitioned][-watermark], sequence,
//!       sequence-all-<last|middle>[-selfref], pattern-<and|seq|seq-kleene|seq-not>, join, distinct,
//!       limit, ...); <how> = fewer | more | different | reordered at the first diverging step;
//!       <component> = first differing schema path (data keys stripped, e.g. join_states.buffers,
//!       sase_states.active_runs.captured, window_states.window_start_ms) between the stream's part
//!       of `create_checkpoint()` of the restored engine and of R after the same number of steps
//!       (the cut is run a second time for this), or `not-in-checkpoint` when the two engines'
//!       checkpoints never differ before the outputs do (the lost state is not serialised at all).
//!   restore/timestamp-submillisecond/<family>    the stream does not diverge (up to that step) once
//!       every input timestamp is floored to whole milliseconds: precision lost in the checkpoint.
//!   restore/on-watermark-advance/<how>/<component>   the first diverging step is an external
//!       watermark advance (the window kind is not the discriminating feature there).
//!   restore/codec-error, restore/restore-error, restore/panic/<file>, restore/variables/...
//!
//! Self-check: C19_PERTURB=limit|distinct|tumbling damages the deserialised checkpoint before the
//! restore (limit counters zeroed / distinct keys reversed / window_start dropped), i.e. what a
//! broken restore would do; the check must then report restore/limit/.., restore/distinct-lru-full/..,
//! restore/window-tumbling../.. . `--replay FILE [--cut N|--all-cuts] [--floor-ms]` re-runs a witness.
#[path = "../ckgen.rs"]
mod ckgen;
use ckgen::*;
use serde_json::{json, Value as J};
use std::collections::BTreeMap;
use tokio::sync::mpsc;
use varpulis_core::ast::Program;
use varpulis_core::Value;
use varpulis_runtime::codec::{self, CheckpointFormat};
use varpulis_runtime::engine::Engine;
use varpulis_runtime::event::Event;
use varpulis_runtime::persistence::EngineCheckpoint;
use vh::eng::*;
use vh::*;

const EXT: &str = "ext";

#[derive(Clone, Debug)]
struct Case {
    src: String,
    kinds: Vec<(String, String)>, // (stream name, kind label) in definition order
    steps: Vec<Step>,
    /// register the watermark source "ext" through the API after load (both engines)
    ext_wm: bool,
    /// long synthetic case: description used in witnesses instead of the step list
    desc: Option<String>,
}

impl Case {
    fn json(&self) -> J {
        match &self.desc {
            Some(d) => json!({"program": self.src, "stream_kinds": self.kinds, "ext_watermark_source": self.ext_wm, "steps_description": d}),
            None => json!({"program": self.src, "stream_kinds": self.kinds, "ext_watermark_source": self.ext_wm, "steps": self.steps.iter().map(|s| s.json()).collect::<Vec<_>>()}),
        }
    }
    fn from_json(w: &J) -> Option<Case> {
        Some(Case {
            src: w.get("program")?.as_str()?.to_string(),
            kinds: w.get("stream_kinds")?.as_array()?.iter().filter_map(|p| Some((p.get(0)?.as_str()?.to_string(), p.get(1)?.as_str()?.to_string()))).collect(),
            steps: w.get("steps")?.as_array()?.iter().filter_map(Step::from_json).collect(),
            ext_wm: w.get("ext_watermark_source").and_then(|b| b.as_bool()).unwrap_or(false),
            desc: None,
        })
    }
    fn floor_ms(&self) -> Case {
        Case { steps: self.steps.iter().map(|s| s.floor_ms()).collect(), ..self.clone() }
    }
}

fn fresh(program: &Program, ext_wm: bool) -> Result<Loaded, String> {
    let (tx, rx) = mpsc::channel::<Event>(100_000);
    let mut engine = Engine::new(tx);
    engine.load(program).map_err(|e| format!("load: {}", e))?;
    if ext_wm {
        engine.enable_watermark_tracking();
        engine.register_watermark_source(EXT, chrono::Duration::zero());
    }
    Ok(Loaded { engine, rx })
}

fn apply(l: &mut Loaded, rt: &tokio::runtime::Runtime, s: &Step) -> Result<Vec<String>, String> {
    match s {
        Step::Ev(i) => rt.block_on(l.engine.process(i.event())).map_err(|e| format!("process: {}", e))?,
        Step::Wm { source, ms } => rt.block_on(l.engine.advance_external_watermark(source, ts_ms(*ms).timestamp_millis())).map_err(|e| format!("watermark: {}", e))?,
        Step::Var { name, value } => l.engine.set_variable(name, Value::Int(*value)).map_err(|e| format!("set_variable: {}", e))?,
    }
    Ok(l.drain().iter().map(canon).collect())
}

fn vars_of(e: &Engine) -> BTreeMap<String, String> {
    e.variables().iter().map(|(k, v)| (k.clone(), format!("{:?}", v))).collect()
}

struct RefRun {
    outs: Vec<Vec<String>>,
    /// cps[c] = checkpoint after c steps (only for c >= the `cp_from` given to `reference`)
    cps: BTreeMap<usize, EngineCheckpoint>,
    vars: BTreeMap<String, String>,
}

fn reference(c: &Case, program: &Program, cp_from: usize, rt: &tokio::runtime::Runtime) -> Result<RefRun, String> {
    let mut l = fresh(program, c.ext_wm)?;
    let mut outs = vec![];
    let mut cps = BTreeMap::new();
    for (i, s) in c.steps.iter().enumerate() {
        outs.push(apply(&mut l, rt, s)?);
        if i + 1 >= cp_from {
            cps.insert(i + 1, l.engine.create_checkpoint());
        }
    }
    Ok(RefRun { outs, cps, vars: vars_of(&l.engine) })
}

enum CutErr {
    Codec(String),
    Restore(String),
    Harness(String),
}

struct CutRun {
    outs: Vec<Vec<String>>, // for steps cut..
    vars: BTreeMap<String, String>,
    /// with diag: checkpoint of the restored engine after restore and after each later step
    cps: Vec<EngineCheckpoint>,
}

fn run_cut(c: &Case, program: &Program, cp: &EngineCheckpoint, cut: usize, upto: usize, diag: bool, rt: &tokio::runtime::Runtime) -> Result<CutRun, CutErr> {
    let bytes = codec::serialize(cp, CheckpointFormat::Json).map_err(|e| CutErr::Codec(format!("serialize: {}", e)))?;
    #[allow(unused_mut)]
    let mut cp2: EngineCheckpoint = codec::deserialize(&bytes).map_err(|e| CutErr::Codec(format!("deserialize: {}", e)))?;
    // Self-check of the monitor (off unless C19_PERTURB is set): damage the checkpoint the way a broken
    // restore would, to see that the comparison fires.
    match std::env::var("C19_PERTURB").ok().as_deref() {
        Some("limit") => cp2.limit_states.values_mut().for_each(|l| l.count = 0),
        Some("distinct") => cp2.distinct_states.values_mut().for_each(|d| d.keys.reverse()),
        Some("tumbling") => cp2.window_states.values_mut().for_each(|w| {
            w.window_start_ms = None;
            w.partitions.values_mut().for_each(|p| p.window_start_ms = None);
        }),
        _ => {}
    }
    let mut l = fresh(program, c.ext_wm).map_err(CutErr::Harness)?;
    l.engine.restore_checkpoint(&cp2).map_err(|e| CutErr::Restore(format!("{}", e)))?;
    let early = l.drain();
    let mut outs = vec![];
    let mut cps = vec![];
    if diag {
        cps.push(l.engine.create_checkpoint());
    }
    for (j, s) in c.steps[cut..upto].iter().enumerate() {
        let mut o = apply(&mut l, rt, s).map_err(CutErr::Harness)?;
        if j == 0 && !early.is_empty() {
            // outputs produced by restore itself count as outputs after the cut
            let mut e: Vec<String> = early.iter().map(canon).collect();
            e.append(&mut o);
            o = e;
        }
        outs.push(o);
        if diag {
            cps.push(l.engine.create_checkpoint());
        }
    }
    Ok(CutRun { outs, vars: vars_of(&l.engine), cps })
}

// ---------------------------------------------------------------------------------------------
// Checkpoint inspection (own bookkeeping over the serialised form)
// ---------------------------------------------------------------------------------------------

/// Maps whose keys are data (stream names, partition keys, aliases, field names, sources).
const DATA_KEYED: [&str; 14] = [
    "window_states", "sase_states", "join_states", "distinct_states", "limit_states", "partitions", "partitioned_runs", "buffers", "variables", "sources", "captured", "fields", "join_keys", "__buffers_inner",
];
/// Counters that follow from the outputs / history, not operator state.
const IGNORED: [&str; 6] = ["events_processed", "output_events_emitted", "total_runs_created", "total_runs_completed", "total_runs_dropped", "total_runs_evicted"];

/// First differing schema path between two checkpoints (data keys and indices stripped).
fn diff_path(a: &J, b: &J, parent: &str, path: &mut Vec<String>) -> bool {
    match (a, b) {
        (J::Object(ma), J::Object(mb)) => {
            let data_keyed = DATA_KEYED.contains(&parent);
            let ka: Vec<&String> = ma.keys().filter(|k| !IGNORED.contains(&k.as_str())).collect();
            let kb: Vec<&String> = mb.keys().filter(|k| !IGNORED.contains(&k.as_str())).collect();
            let mut sa = ka.clone();
            let mut sb = kb.clone();
            sa.sort();
            sb.sort();
            if sa != sb {
                path.push("keys".into());
                return true;
            }
            for k in sa {
                // join buffers: source -> key -> entries (two data-keyed levels)
                let child_parent = if data_keyed { if parent == "buffers" { "__buffers_inner" } else { "" } } else { k.as_str() };
                let mark = path.len();
                if !data_keyed {
                    path.push(k.clone());
                }
                if diff_path(&ma[k], &mb[k], child_parent, path) {
                    return true;
                }
                path.truncate(mark);
            }
            false
        }
        (J::Array(xa), J::Array(xb)) => {
            if xa.len() != xb.len() {
                path.push("len".into());
                return true;
            }
            for (x, y) in xa.iter().zip(xb.iter()) {
                if diff_path(x, y, parent, path) {
                    return true;
                }
            }
            false
        }
        (x, y) => x != y,
    }
}

/// First differing schema path in the part of the checkpoints that belongs to `stream` (its entry
/// in every per-stream map) or, failing that, in the engine-wide parts (watermarks, variables).
fn component(a: &EngineCheckpoint, b: &EngineCheckpoint, stream: &str) -> Option<String> {
    let ja = serde_json::to_value(a).ok()?;
    let jb = serde_json::to_value(b).ok()?;
    for comp in ["window_states", "sase_states", "join_states", "distinct_states", "limit_states"] {
        let (xa, xb) = (ja.get(comp).and_then(|m| m.get(stream)), jb.get(comp).and_then(|m| m.get(stream)));
        match (xa, xb) {
            (None, None) => {}
            (Some(x), Some(y)) => {
                let mut path = vec![comp.to_string()];
                if diff_path(x, y, "", &mut path) {
                    path.retain(|p| p != "len" && p != "keys");
                    path.truncate(3);
                    return Some(path.join("."));
                }
            }
            _ => return Some(format!("{}.missing", comp)),
        }
    }
    for comp in ["watermark_state", "variables"] {
        let (xa, xb) = (ja.get(comp).unwrap_or(&J::Null), jb.get(comp).unwrap_or(&J::Null));
        let mut path = vec![comp.to_string()];
        if diff_path(xa, xb, comp, &mut path) {
            path.retain(|p| p != "len" && p != "keys");
            path.truncate(3);
            return Some(path.join("."));
        }
    }
    None
}

// ---------------------------------------------------------------------------------------------
// One case: reference + every cut
// ---------------------------------------------------------------------------------------------

struct Divergence {
    cut: usize,
    step: usize,
    stream: String,
    kind: String,
    how: &'static str,
    expected: Vec<String>,
    observed: Vec<String>,
}

fn per_stream<'a>(lines: &'a [String], name: &str) -> Vec<&'a String> {
    lines.iter().filter(|l| stream_of(l) == name).collect()
}

fn first_divergence(c: &Case, r: &RefRun, cr: &CutRun, cut: usize) -> Option<Divergence> {
    for (j, got) in cr.outs.iter().enumerate() {
        let exp = &r.outs[cut + j];
        if got == exp {
            continue;
        }
        for (name, kind) in &c.kinds {
            let (e, g) = (per_stream(exp, name), per_stream(got, name));
            if e != g {
                let how = if g.len() < e.len() {
                    "fewer"
                } else if g.len() > e.len() {
                    "more"
                } else {
                    let (mut es, mut gs) = (e.clone(), g.clone());
                    es.sort();
                    gs.sort();
                    if es == gs { "reordered" } else { "different" }
                };
                return Some(Divergence { cut, step: cut + j, stream: name.clone(), kind: kind.clone(), how, expected: exp.clone(), observed: got.clone() });
            }
        }
        // a stream not among the definitions (merge helper stream ...) or pure interleaving
        let mut es = exp.clone();
        let mut gs = got.clone();
        es.sort();
        gs.sort();
        let (kind, how) = if es == gs { ("any", "order-only") } else { ("undeclared-stream", "different") };
        return Some(Divergence { cut, step: cut + j, stream: String::new(), kind: kind.into(), how, expected: exp.clone(), observed: got.clone() });
    }
    None
}

/// Do the outputs of stream `stream` at step `at` differ between reference and restored engine at
/// cut `cut` of case `c`? (used for the ms-floored re-run: the divergence seen at that step is
/// attributed to timestamp precision when flooring every input timestamp makes it go away)
fn diverges_at(c: &Case, program: &Program, cut: usize, stream: &str, at: usize, rt: &tokio::runtime::Runtime) -> Option<bool> {
    let r = reference(c, program, cut, rt).ok()?;
    let cr = run_cut(c, program, &r.cps[&cut], cut, at + 1, false, rt).ok()?;
    Some(per_stream(cr.outs.last()?, stream) != per_stream(&r.outs[at], stream))
}

/// Operator family for the timestamp-precision signature.
fn time_family(kind: &str) -> String {
    kind.replace("-partitioned", "").replace("-watermark", "")
}

fn check_case(c: &Case, only_cut: Option<usize>, out: &mut Partial, rt: &tokio::runtime::Runtime, verbose: bool) {
    let program = match varpulis_parser::parse(&c.src) {
        Ok(p) => p,
        Err(e) => {
            out.add("programs_rejected", 1);
            if out.counters["programs_rejected"] <= 2 {
                out.sample(json!({"rejected": c.src, "error": format!("parse: {}", e)}));
            }
            return;
        }
    };
    let r = match catch(std::panic::AssertUnwindSafe(|| reference(c, &program, only_cut.unwrap_or(1), rt))) {
        Ok(Ok(r)) => r,
        Ok(Err(e)) => {
            out.add("programs_rejected", 1);
            if out.counters["programs_rejected"] <= 2 {
                out.sample(json!({"rejected": c.src, "error": e}));
            }
            return;
        }
        Err(pn) => {
            // a panic of the uninterrupted run is not this property's subject
            out.add("reference_panics", 1);
            out.inconclusive(&format!("uninterrupted run panicked: {} at {}", pn, panic_site(&last_panic_location())));
            return;
        }
    };
    let n = c.steps.len();
    let submillis = c.steps.iter().any(|s| s.has_submillis());
    out.add("steps_observed", n as u64);
    if verbose {
        for (i, o) in r.outs.iter().enumerate() {
            println!("ref #{} {} -> {:?}", i, c.steps[i].json(), o);
        }
    }
    let cuts: Vec<usize> = match only_cut {
        Some(k) => vec![k],
        None => (1..n).collect(),
    };
    for cut in cuts {
        out.eval();
        let later_outputs: usize = r.outs[cut..].iter().map(|o| o.len()).sum();
        let mut cpj = serde_json::to_value(&r.cps[&cut]).unwrap_or(J::Null);
        let items = state_items(&cpj);
        if items > 0 && later_outputs > 0 {
            out.nontrivial(&(c.src.clone(), c.steps.len(), c.steps.iter().take(64).cloned().collect::<Vec<_>>(), cut));
            for (_, k) in &c.kinds {
                out.add(&format!("nontrivial_cuts_with/{}", k), 1);
            }
        }
        if items > 500 {
            cpj = json!(format!("omitted ({} state items)", items));
        }
        let wit = |extra: J| json!({"case": c.json(), "cut": cut, "checkpoint_at_cut": cpj, "detail": extra});
        let cr = match catch(std::panic::AssertUnwindSafe(|| run_cut(c, &program, &r.cps[&cut], cut, n, false, rt))) {
            Ok(Ok(cr)) => cr,
            Ok(Err(CutErr::Codec(e))) => {
                out.violation("restore/codec-error", "a checkpoint taken by create_checkpoint() does not survive the JSON codec round-trip", wit(json!({"error": e})));
                continue;
            }
            Ok(Err(CutErr::Restore(e))) => {
                out.violation("restore/restore-error", "restore_checkpoint rejects a checkpoint the same build has just produced", wit(json!({"error": e})));
                continue;
            }
            Ok(Err(CutErr::Harness(e))) => {
                out.inconclusive(&format!("restored engine failed where the reference did not: {}", e));
                continue;
            }
            Err(pn) => {
                let site = panic_site(&last_panic_location());
                let site_file = site.split(':').next().unwrap_or("").to_string();
                out.violation(&format!("restore/panic/{}", site_file), "the restored engine panicked where the uninterrupted one did not", wit(json!({"panic": pn, "site": site})));
                continue;
            }
        };
        out.add("outputs_compared", cr.outs.iter().map(|o| o.len() as u64).sum());
        let div = first_divergence(c, &r, &cr, cut);
        if verbose {
            for (j, o) in cr.outs.iter().enumerate() {
                println!("cut {} #{} -> {:?}{}", cut, cut + j, o, if *o != r.outs[cut + j] { "   <-- differs" } else { "" });
            }
        }
        if let Some(d) = div {
            // state component: run the cut again with checkpoints after every step
            let mut comp = "not-in-checkpoint".to_string();
            if let Ok(Ok(dr)) = catch(std::panic::AssertUnwindSafe(|| run_cut(c, &program, &r.cps[&cut], cut, d.step + 1, true, rt))) {
                for (t, cp) in dr.cps.iter().enumerate() {
                    if t + cut > d.step {
                        break; // after the diverging step the histories differ anyway
                    }
                    if let Some(p) = component(&r.cps[&(cut + t)], cp, &d.stream) {
                        comp = p;
                        break;
                    }
                }
            }
            if submillis {
                let fl = c.floor_ms();
                if let Ok(Some(false)) = catch(std::panic::AssertUnwindSafe(|| diverges_at(&fl, &program, cut, &d.stream, d.step, rt))) {
                    comp = "timestamp-submillisecond".to_string();
                }
            }
            let on_wm = matches!(c.steps[d.step], Step::Wm { .. });
            let sig = if comp == "timestamp-submillisecond" {
                format!("restore/timestamp-submillisecond/{}", time_family(&d.kind))
            } else if on_wm {
                // the outputs of an external watermark advance differ: the window kind is not the discriminating feature
                format!("restore/on-watermark-advance/{}/{}", d.how, comp)
            } else {
                format!("restore/{}/{}/{}", d.kind, d.how, comp)
            };
            out.violation(
                &sig,
                "after checkpoint -> codec -> restore into a fresh engine the outputs of the remaining input differ from the uninterrupted run",
                wit(json!({"first_diverging_step": d.step, "stream": d.stream, "stream_kind": d.kind, "expected_outputs_of_step": d.expected, "observed_outputs_of_step": d.observed, "state_component": comp,
                    "expected_outputs_after_cut": r.outs[cut..].to_vec(), "observed_outputs_after_cut": cr.outs})),
            );
        } else if cr.vars != r.vars {
            out.violation("restore/variables/different/final-values", "engine variables differ at the end of the input after a restore", wit(json!({"expected": r.vars, "observed": cr.vars})));
        }
    }
}

// ---------------------------------------------------------------------------------------------
// Case generation
// ---------------------------------------------------------------------------------------------

fn gen_case(rng: &mut Rng, thorough: bool) -> Case {
    let class = rng.below(100);
    let focused = class < 65;
    let opts = POpts { max_streams: if focused { 1 } else { 4 }, watermarks: true, patterns: true, merges: true, functions: true };
    let mut p = gen_prog(rng, &opts);
    if class < 15 {
        // watermark class: one time window over A with a declared watermark
        let mut wk = gen_wk(rng);
        while !wk.is_time() {
            wk = gen_wk(rng);
        }
        let kind = Kind::Window {
            src: "A".into(),
            wk,
            partitioned: rng.chance(2, 5),
            pre_min_x: if rng.chance(1, 4) { Some(rng.range(1, 2)) } else { None },
            post_min_n: None,
            watermark: Some((rng.range(0, 3), if rng.chance(1, 2) { Some(rng.range(0, 2)) } else { None })),
        };
        p = Prog { streams: vec![StreamDef { name: "S1".into(), kind }] };
    } else if class < 25 {
        // join class (out-of-order input below)
        let (l, r) = if rng.chance(1, 2) { ("A", "B") } else { ("B", "A") };
        p = Prog { streams: vec![StreamDef { name: "S1".into(), kind: Kind::Join { left: l.into(), right: r.into(), window_ms: 2 + rng.below(6) as i64 } }] };
    } else if focused {
        // a single stream: make sure it is a stateful one
        let mut guard = 0;
        while !p.streams[0].is_stateful() && guard < 20 {
            p = gen_prog(rng, &opts);
            guard += 1;
        }
    }
    if !focused {
        // late events are dropped engine-wide: keep `.allowed_lateness` to single-stream programs so that
        // the stream blamed for a divergence is the one that declares it
        for st in p.streams.iter_mut() {
            if let Kind::Window { watermark: Some((_, late)), .. } = &mut st.kind {
                *late = None;
            }
        }
    }
    let declared_wm: Vec<String> = p
        .streams
        .iter()
        .filter_map(|s| match &s.kind {
            Kind::Window { src, watermark: Some(_), .. } => Some(src.clone()),
            _ => None,
        })
        .collect();
    let has_time_window = p.streams.iter().any(|s| matches!(&s.kind, Kind::Window { wk, .. } if wk.is_time()));
    let ext_wm = declared_wm.is_empty() && has_time_window && rng.chance(1, 4);
    let mut wm_sources = declared_wm.clone();
    if ext_wm {
        wm_sources.push(EXT.to_string());
    }
    wm_sources.sort();
    wm_sources.dedup();
    let io = IOpts {
        submillis: rng.chance(2, 5),
        out_of_order_pct: if !wm_sources.is_empty() { 25 } else if (15..25).contains(&class) { 20 } else if rng.chance(1, 6) { 15 } else { 0 },
        wm_sources,
        vars: rng.chance(1, 8),
        lag: if class < 15 && rng.chance(1, 2) { Some(("A".to_string(), rng.range(2, 7))) } else { None },
    };
    let len = if thorough { 10 + rng.below(31) } else { 8 + rng.below(17) };
    let steps = gen_steps(rng, len, &io);
    // variables are declared in the program (`var`), so that assigning them repeatedly is legal
    let src = if io.vars { format!("var v0 = 0\nvar v1 = 0\n\n{}", p.vpl()) } else { p.vpl() };
    Case { src, kinds: p.streams.iter().map(|s| (s.name.clone(), s.kind_name())).collect(), steps, ext_wm, desc: None }
}

/// `.distinct` keeps its keys in an LRU of 100 000 entries; the order of the keys only matters
/// once the cache is full. One long case: 100 000 distinct values, cut, one more new value (evicts
/// the least recently used key), then the oldest and the newest key again.
fn lru_case() -> (Case, usize) {
    let cap = 100_000i64;
    let mut steps: Vec<Step> = (0..cap).map(|i| Step::Ev(In { uid: i + 1, ty: "A".into(), x: i, k: 1, ts_us: i * 1000 })).collect();
    let cut = steps.len();
    for (j, x) in [cap, cap - 1, 0, 1, cap - 2].iter().enumerate() {
        let uid = cap + 1 + j as i64;
        steps.push(Step::Ev(In { uid, ty: "A".into(), x: *x, k: 1, ts_us: uid * 1000 }));
    }
    let src = "stream S1 = A\n    .distinct(x)\n    .emit(uid: uid, x: x, k: k)\n".to_string();
    let desc = format!("events A uid=i+1, x=i, k=1, ts=i ms for i in 0..{cap}; cut after these {cap} events; then A events with x = {cap}, {}, 0, 1, {} (uids {}..)", cap - 1, cap - 2, cap + 1, cap = cap);
    (Case { src, kinds: vec![("S1".into(), "distinct-lru-full".into())], steps, ext_wm: false, desc: Some(desc) }, cut)
}

fn main() {
    let args = Args::parse();
    install_quiet_panic_hook();
    watchdog("C19", args.pick(1500, 14400));
    let mut rep = Report::new("C19", "exploration", &args);
    rep.rule = "programs of 1-4 streams (65% a single stateful stream, of which 15% a watermarked time window with a lagging source and 10% a join with out-of-order input) from a grammar: count / sliding-count / tumbling / sliding / session windows, plain and under .partition_by(k), optionally with .where before and after the window and declared .watermark/.allowed_lateness; 2-3 step sequences incl. `all` (last or middle; constant, earlier-alias and self-referencing filters), .partition_by, .not; named patterns (SEQ with NOT, AND, SEQ AND, B+); 2-way joins; distinct; limit; merge sources; filters (also calling a user function) and derived chains. Inputs: 8-24 (thorough 10-40) steps = events of types A/B/C/N (x in 0..4, k in 1..3; timestamps with ties, in 2/5 of the cases with 250us components, out-of-order in watermark cases), external watermark advances (declared sources or an API-registered source) and set_variable calls. EVERY cut 1..len-1 is executed: checkpoint of the reference engine after `cut` steps -> codec JSON -> fresh engine load + restore -> remaining steps; per-step ordered outputs and final variables compared. Plus one long case for the full distinct LRU (100000 keys). Non-trivial: cut whose checkpoint holds >=1 state item (buffered/captured event, distinct key, non-zero limit counter, source watermark) and with >=1 reference output after the cut; distinct by (program, steps, cut).".into();
    rep.assume("outputs compared by stream name and data fields per input step, in order; emission wall-clock timestamps excluded; no `.within` (wall-clock) in generated programs");
    rep.assume("Engine::create_checkpoint(&self) does not modify the engine, so the reference engine doubles as the engine that is checkpointed at every cut");

    if let Some(path) = &args.replay {
        let txt = std::fs::read_to_string(path).expect("replay file");
        let doc: J = serde_json::from_str(&txt).expect("replay json");
        let w = doc.get("witness").unwrap_or(&doc);
        let case = Case::from_json(w.get("case").unwrap_or(w)).expect("witness.case");
        let mut case = case;
        if args.has_flag("--floor-ms") {
            case = case.floor_ms();
        }
        let cut = args.opt("--cut").and_then(|c| c.parse::<usize>().ok()).or(w.get("cut").and_then(|c| c.as_u64()).map(|c| c as usize));
        let cut = if args.has_flag("--all-cuts") { None } else { cut };
        let mut out = Partial::default();
        let rt = rt();
        println!("program:\n{}", case.src);
        check_case(&case, cut, &mut out, &rt, true);
        // replay prints what it sees; it does not write evidence or replay files
        let mut sigs: Vec<&String> = out.violations.iter().map(|v| &v.0).collect();
        sigs.dedup();
        for sg in &sigs {
            println!("VIOLATION property={} signature={}", rep.property, sg);
        }
        for w in &out.inconclusive {
            println!("INCONCLUSIVE property={} reason={}", rep.property, w);
        }
        std::process::exit(if !sigs.is_empty() { 1 } else if !out.inconclusive.is_empty() { 2 } else { 0 });
    }

    let threads = ncpu();
    let cases = args.pick(4000usize, 30_000usize);
    let per_thread = cases / threads + 1;
    let thorough = args.thorough();
    let parts = parallel(threads, args.seed ^ 0xC19, move |ti, mut rng| {
        let mut out = Partial::default();
        let rt = rt();
        if ti == 0 {
            let (c, cut) = lru_case();
            check_case(&c, Some(cut), &mut out, &rt, false);
            out.add("lru_case_steps", c.steps.len() as u64);
        }
        for _ in 0..per_thread {
            let c = gen_case(&mut rng, thorough);
            let before = out.violations.len();
            check_case(&c, None, &mut out, &rt, false);
            if out.samples.len() < 2 && out.violations.len() == before && c.kinds.len() >= 2 {
                out.sample(json!({"program": c.src, "steps": c.steps.len(), "cuts": c.steps.len() - 1}));
            }
        }
        out
    });
    for p in parts {
        rep.merge(p);
    }
    std::process::exit(rep.finish());
}
