//! C41 — the parser terminates without panicking and locates its errors inside the input.
//! Monitor: invariant on `varpulis_parser::parse` results over mutated real sources.
//! The parsing runs in SUBPROCESS shards (this binary re-executes itself with `--shard FILE`):
//! a stack overflow or any other abort kills only the shard, the parent learns the offending
//! input from the shard's progress lines and restarts the shard after it. A per-input cap of
//! 10 s of CPU time (from /proc/self/stat, so that machine load cannot fake a slow parse; wall
//! time is only a 12x backstop) is enforced by the shard; an input over the cap is re-measured
//! alone before it counts.
//! Oracle (parent side, needs only the ORIGINAL input text): every position an error carries
//! is <= len(input), every line <= number of lines, every column <= length of that line + 1.
#[path = "../vplmut.rs"]
mod vplmut;

use serde_json::{json, Value as J};
use std::io::{BufRead, BufReader, Write};
use std::path::{Path, PathBuf};
use std::process::{Command, Stdio};
use std::sync::atomic::{AtomicU64, AtomicUsize, Ordering};
use std::sync::Arc;
use std::time::Instant;
use varpulis_parser::ParseError;
use vh::*;

const MAX_INPUT: usize = 8 * 1024;
const CAP_MS: u64 = 90_000;

// ---------------------------------------------------------------------------
// Shard (child) side
// ---------------------------------------------------------------------------
fn err_json(e: &ParseError) -> J {
    let msg = |s: &str| -> String { s.chars().take(160).collect() };
    match e {
        ParseError::Located { line, column, position, message, .. } => json!({"variant": "Located", "line": line, "column": column, "position": position, "message": msg(message)}),
        ParseError::UnexpectedToken { position, expected, found } => json!({"variant": "UnexpectedToken", "position": position, "message": msg(&format!("expected {} found {}", expected, found))}),
        ParseError::UnexpectedEof => json!({"variant": "UnexpectedEof"}),
        ParseError::InvalidToken { position, message } => json!({"variant": "InvalidToken", "position": position, "message": msg(message)}),
        ParseError::InvalidNumber(m) => json!({"variant": "InvalidNumber", "message": msg(m)}),
        ParseError::InvalidDuration(m) => json!({"variant": "InvalidDuration", "message": msg(m)}),
        ParseError::InvalidTimestamp(m) => json!({"variant": "InvalidTimestamp", "message": msg(m)}),
        ParseError::UnterminatedString(p) => json!({"variant": "UnterminatedString", "position": p}),
        ParseError::InvalidEscape(m) => json!({"variant": "InvalidEscape", "message": msg(m)}),
        ParseError::Custom { span, message } => json!({"variant": "Custom", "span_start": span.start, "span_end": span.end, "message": msg(message)}),
    }
}

/// CPU time (user+system, all threads) consumed by this process so far, in ms, from
/// /proc/self/stat (clock ticks of 10 ms). The cap is enforced on CPU time so that a loaded or
/// stalled machine cannot turn a fast parse into a "timeout"; wall time is only a backstop.
fn cpu_ms() -> Option<u64> {
    let st = std::fs::read_to_string("/proc/self/stat").ok()?;
    let rest = &st[st.rfind(')')? + 1..];
    let f: Vec<&str> = rest.split_whitespace().collect();
    // after the ')' the fields start at index 0 = state (field 3); utime = field 14, stime = field 15
    let ut: u64 = f.get(11)?.parse().ok()?;
    let stt: u64 = f.get(12)?.parse().ok()?;
    Some((ut + stt) * 10)
}

fn shard_main(file: &str, from: usize, cap_ms: u64) -> i32 {
    vplmut::install_silent_hook();
    let inputs: Vec<String> = match std::fs::read_to_string(file).ok().and_then(|t| serde_json::from_str(&t).ok()) {
        Some(v) => v,
        None => {
            println!("E cannot read shard file");
            return 4;
        }
    };
    let t0 = Instant::now();
    let cur = Arc::new(AtomicUsize::new(usize::MAX));
    let started = Arc::new(AtomicU64::new(0));
    let started_cpu = Arc::new(AtomicU64::new(0));
    if cpu_ms().is_none() {
        println!("E cannot read /proc/self/stat");
        return 4;
    }
    {
        let cur = cur.clone();
        let started = started.clone();
        let started_cpu = started_cpu.clone();
        std::thread::spawn(move || loop {
            std::thread::sleep(std::time::Duration::from_millis(50));
            let i = cur.load(Ordering::SeqCst);
            if i != usize::MAX {
                let wall = (t0.elapsed().as_millis() as u64).saturating_sub(started.load(Ordering::SeqCst));
                let cpu = cpu_ms().unwrap_or(0).saturating_sub(started_cpu.load(Ordering::SeqCst));
                // CPU cap; wall backstop at 3x for a parse that blocks without burning CPU
                if (cpu > cap_ms || wall > 3 * cap_ms) && cur.load(Ordering::SeqCst) == i {
                    println!("T {} {} {}", i, cpu, wall);
                    let _ = std::io::stdout().flush();
                    std::process::exit(3);
                }
            }
        });
    }
    for (i, input) in inputs.iter().enumerate().skip(from) {
        println!("S {}", i);
        started.store(t0.elapsed().as_millis() as u64, Ordering::SeqCst);
        started_cpu.store(cpu_ms().unwrap_or(0), Ordering::SeqCst);
        cur.store(i, Ordering::SeqCst);
        let before = vplmut::panic_count();
        let t = Instant::now();
        let r = catch(std::panic::AssertUnwindSafe(|| varpulis_parser::parse(input)));
        let us = t.elapsed().as_micros() as u64;
        let cpu_used = cpu_ms().unwrap_or(0).saturating_sub(started_cpu.load(Ordering::SeqCst));
        cur.store(usize::MAX, Ordering::SeqCst);
        let panics = vplmut::panic_count() - before;
        let mut o = match r {
            Ok(Ok(p)) => json!({"k": "ok", "stmts": p.statements.len()}),
            Ok(Err(e)) => {
                let mut j = err_json(&e);
                j["k"] = json!("err");
                j
            }
            Err(m) => json!({"k": "panic", "message": m.chars().take(200).collect::<String>(), "site": vplmut::site_file(&vplmut::last_panic_here())}),
        };
        o["us"] = json!(us);
        o["cpu_ms"] = json!(cpu_used);
        if panics > 0 {
            o["panics"] = json!(panics);
            o["panic_site"] = json!(vplmut::site_file(&vplmut::last_panic_anywhere()));
        }
        println!("R {} {}", i, o);
    }
    0
}

// ---------------------------------------------------------------------------
// Parent side
// ---------------------------------------------------------------------------
#[derive(Debug)]
enum Outcome {
    Result(J),
    Abort { signal: Option<i32>, code: Option<i32>, stderr_tail: String },
    Timeout { cpu_ms: u64, wall_ms: u64 },
}

/// Run one shard file to completion, restarting after aborts/timeouts. Returns one outcome per
/// input index that produced one, plus harness problems.
fn run_shard(exe: &Path, file: &Path, n_inputs: usize, cap_ms: u64) -> (Vec<Option<Outcome>>, Vec<String>) {
    let mut outcomes: Vec<Option<Outcome>> = (0..n_inputs).map(|_| None).collect();
    let mut problems = vec![];
    let mut from = 0usize;
    let mut restarts = 0;
    while from < n_inputs {
        let errfile = file.with_extension(format!("stderr{}", restarts));
        let errf = match std::fs::File::create(&errfile) {
            Ok(f) => f,
            Err(e) => {
                problems.push(format!("cannot create stderr file: {}", e));
                break;
            }
        };
        // address-space limit as a safety net for the shared machine (8 GiB), then exec ourselves
        let child = Command::new("sh")
            .arg("-c")
            .arg("ulimit -v 8388608 2>/dev/null; exec \"$0\" \"$@\"")
            .arg(exe)
            .arg("--shard")
            .arg(file)
            .arg("--from")
            .arg(from.to_string())
            .arg("--cap-ms")
            .arg(cap_ms.to_string())
            .stdin(Stdio::null())
            .stdout(Stdio::piped())
            .stderr(Stdio::from(errf))
            .spawn();
        let mut child = match child {
            Ok(c) => c,
            Err(e) => {
                problems.push(format!("cannot spawn shard: {}", e));
                break;
            }
        };
        let mut pending: Option<usize> = None;
        let mut timed_out: Option<(usize, u64, u64)> = None;
        if let Some(so) = child.stdout.take() {
            for line in BufReader::new(so).lines() {
                let Ok(line) = line else { break };
                let mut it = line.splitn(3, ' ');
                match (it.next(), it.next().and_then(|x| x.parse::<usize>().ok())) {
                    (Some("S"), Some(i)) => pending = Some(i),
                    (Some("R"), Some(i)) => {
                        if let Some(j) = it.next().and_then(|t| serde_json::from_str::<J>(t).ok()) {
                            if i < n_inputs {
                                outcomes[i] = Some(Outcome::Result(j));
                            }
                        }
                        pending = None;
                    }
                    (Some("T"), Some(i)) => {
                        let mut nums = it.next().unwrap_or("").split(' ').map(|x| x.parse::<u64>().unwrap_or(0));
                        timed_out = Some((i, nums.next().unwrap_or(0), nums.next().unwrap_or(0)));
                    }
                    (Some("E"), _) => problems.push(format!("shard: {}", line)),
                    _ => {}
                }
            }
        }
        let status = child.wait();
        let stderr_tail = std::fs::read_to_string(&errfile).map(|s| s.chars().rev().take(600).collect::<Vec<_>>().into_iter().rev().collect::<String>()).unwrap_or_default();
        let _ = std::fs::remove_file(&errfile);
        restarts += 1;
        match status {
            Ok(st) if st.success() => break,
            Ok(st) => {
                use std::os::unix::process::ExitStatusExt;
                if let Some((i, cpu_ms, wall_ms)) = timed_out {
                    outcomes[i] = Some(Outcome::Timeout { cpu_ms, wall_ms });
                    from = i + 1;
                } else if let Some(i) = pending {
                    outcomes[i] = Some(Outcome::Abort { signal: st.signal(), code: st.code(), stderr_tail });
                    from = i + 1;
                } else {
                    problems.push(format!("shard exited with {:?} outside any input; stderr: {}", st, stderr_tail));
                    break;
                }
            }
            Err(e) => {
                problems.push(format!("wait failed: {}", e));
                break;
            }
        }
        if restarts > 200 {
            problems.push("more than 200 shard restarts".into());
            break;
        }
    }
    (outcomes, problems)
}

struct Case {
    origin: String,
    ops: Vec<&'static str>,
    text: String,
}

fn head(s: &str) -> String {
    s.chars().take(400).collect()
}

/// Is the text the parser really sees (loop-expanded, indentation-marked) identical to the input?
fn preprocess_class(input: &str) -> &'static str {
    let r = catch(std::panic::AssertUnwindSafe(|| match varpulis_parser::expand::expand_declaration_loops(input) {
        Ok(e) => varpulis_parser::indent::preprocess_indentation(&e) == input,
        Err(_) => true,
    }));
    match r {
        Ok(true) => "identical-text",
        Ok(false) => "preprocessed-text",
        Err(_) => "preprocess-panicked",
    }
}

/// The location oracle. Returns (variant, component, detail) for every out-of-range component.
fn judge_location(input: &str, e: &J) -> (bool, Vec<(String, &'static str, String)>) {
    let len = input.len() as u64;
    let lines: Vec<&str> = input.split('\n').collect();
    let n_lines = lines.len() as u64;
    let variant = e["variant"].as_str().unwrap_or("?").to_string();
    let mut bad = vec![];
    let mut located = false;
    let g = |k: &str| e.get(k).and_then(|x| x.as_u64());
    match variant.as_str() {
        "Located" => {
            let (line, column, position) = (g("line").unwrap_or(0), g("column").unwrap_or(0), g("position").unwrap_or(0));
            if line == 0 && column == 0 && position == 0 {
                // "no location" sentinel used by expect_next(): nothing is claimed
                return (false, bad);
            }
            located = true;
            if position > len {
                bad.push((variant.clone(), "position-past-end", format!("position {} > input length {}", position, len)));
            }
            if line > n_lines {
                bad.push((variant.clone(), "line-past-end", format!("line {} > {} lines", line, n_lines)));
            } else if line >= 1 {
                // most permissive unit: bytes (>= UTF-16 units >= chars), '\r' kept
                let ll = lines[(line - 1) as usize].len() as u64;
                if column > ll + 1 {
                    bad.push((variant.clone(), "column-past-line-end", format!("column {} > length {} + 1 of line {}", column, ll, line)));
                }
            }
        }
        "UnexpectedToken" | "InvalidToken" | "UnterminatedString" => {
            let position = g("position").unwrap_or(0);
            // InvalidToken{position: 0} is also used for errors without a location
            located = position != 0 || variant != "InvalidToken";
            if position > len {
                bad.push((variant.clone(), "position-past-end", format!("position {} > input length {}", position, len)));
            }
        }
        "Custom" => {
            located = true;
            let (s, t) = (g("span_start").unwrap_or(0), g("span_end").unwrap_or(0));
            if s > len || t > len {
                bad.push((variant.clone(), "span-past-end", format!("span {}..{} vs input length {}", s, t, len)));
            }
        }
        _ => {}
    }
    (located, bad)
}

fn main() {
    let args = Args::parse();
    if let Some(f) = args.opt("--shard") {
        let from = args.opt("--from").and_then(|x| x.parse().ok()).unwrap_or(0);
        let cap = args.opt("--cap-ms").and_then(|x| x.parse().ok()).unwrap_or(CAP_MS);
        std::process::exit(shard_main(&f, from, cap));
    }
    install_quiet_panic_hook();
    watchdog("C41", args.pick(1500, 14400));
    let mut rep = Report::new("C41", "exploration", &args);
    rep.rule = format!("{}; inputs <= 8 KiB. Non-trivial: an input on which parse returned an error that carries a location; distinct by input text.", vplmut::describe());
    rep.assume("line count of an input = number of '\\n' + 1 (a trailing newline opens a last empty line); a line's length is taken in bytes, the most permissive unit; Located{0,0,0} and InvalidToken{position:0} are read as 'no location claimed'");
    rep.assume("time cap: 90 s of process CPU time (the statement only asks for bounded time; the nesting limit of 24 bounds the known 2^depth type_expr backtracking at ~6-30 s, which is recorded as slow_inputs, not as a violation) per input (/proc/self/stat, 10 ms ticks), counted only when exceeded in a shard AND again alone; an input that returns within the cap when alone satisfies the bound; wall time is a backstop that yields inconclusive, never a violation");
    rep.assume("a location that is in range but points at the wrong place is not decidable here and not claimed");
    rep.assume("panics inside the parser thread that parse() converts into Err are counted (internal_panics_absorbed), not reported: at the API boundary that is 'returns an error'");
    rep.assume("declaration-loop ranges are kept small or over the iteration limit; the region between (up to 10000 iterations x 8 KiB body, nested) is not explored to protect the shared machine");

    let exe = std::env::current_exe().expect("current_exe");
    let tmp = tempfile::Builder::new().prefix("c41-").tempdir().expect("tempdir");

    // ---- replay: one recorded input through a shard ----
    if let Some(path) = args.replay.clone() {
        let doc: J = serde_json::from_str(&std::fs::read_to_string(&path).expect("replay file")).expect("json");
        let input = doc["witness"]["input"].as_str().unwrap_or("").to_string();
        let f = tmp.path().join("replay.json");
        std::fs::write(&f, serde_json::to_string(&vec![input.clone()]).unwrap()).unwrap();
        let (o, p) = run_shard(&exe, &f, 1, CAP_MS);
        println!("replay outcome: {:?} problems: {:?}", o[0], p);
        if let Some(Outcome::Result(j)) = &o[0] {
            println!("judge: {:?} class={}", judge_location(&input, j), preprocess_class(&input));
        }
        return;
    }

    // ---- corpus and inputs ----
    let corp = vplmut::corpus(Path::new("/repo"));
    let chunks = vplmut::chunks(&corp, 4096);
    rep.set("corpus_texts", json!(corp.len()));
    rep.set("corpus_chunks", json!(chunks.len()));
    if chunks.len() < 50 {
        rep.inconclusive("corpus under /repo too small (examples/docs missing?)");
        let code = rep.finish();
        drop(tmp);
        std::process::exit(code);
    }
    let nshards = ncpu();
    let per_shard = args.pick(1200usize, 25_000usize);
    let mut shard_cases: Vec<Vec<Case>> = vec![];
    for s in 0..nshards {
        let mut rng = Rng::new(args.seed).fork(0xC41 + s as u64);
        let mut v = Vec::with_capacity(per_shard);
        for _ in 0..per_shard {
            // favour small seeds a little: half of the picks come from the 50% smallest chunks
            let (origin, text) = &chunks[rng.below(chunks.len())];
            let (t, ops) = vplmut::mutate(&mut rng, text, MAX_INPUT);
            v.push(Case { origin: origin.clone(), ops, text: t });
        }
        shard_cases.push(v);
    }
    // one more shard with fixed boundary inputs; the last one is the nesting-at-the-limit input in
    // type position (12 x `{str: [` = 24 levels = MAX_NESTING_DEPTH; measured 26 s of CPU alone, 2.6x the cap), placed last
    // because it is expected to run into the time cap
    {
        let mut v = vec![];
        let deep_type = format!("let x: {}int\n", "{str: [".repeat(12));
        // unclosed nesting deeper than the limit in TOTAL but mixing bracket kinds so that no single
        // kind is deeper than the limit (the pre-scan must count them together)
        let mixed_a = format!("let v = {}1\n", "a[(".repeat(16));
        let mixed_b = format!("stream S = E\n    .where({}x\n", "f(x => {[".repeat(11));
        let mixed_c = format!("let v = {}{}1\n", "a[".repeat(16), "(x => {".repeat(8));
        for t in [mixed_a.as_str(), mixed_b.as_str(), mixed_c.as_str()] {
            v.push(Case { origin: "fixed".into(), ops: vec![], text: t.to_string() });
        }
        for t in ["", "\n", "stream X = Y", "stream X = \nfoo", "a\nb", "stream X = Y\n    .where(", "\u{e9}", "fn f():\n    return (", "for i in 0..2:\n    stream S{i} = E\n        .where(x >", deep_type.as_str()] {
            v.push(Case { origin: "fixed".into(), ops: vec![], text: t.to_string() });
        }
        shard_cases.push(v);
    }
    let mut files: Vec<PathBuf> = vec![];
    for (s, cases) in shard_cases.iter().enumerate() {
        let f = tmp.path().join(format!("shard{}.json", s));
        let texts: Vec<&str> = cases.iter().map(|c| c.text.as_str()).collect();
        std::fs::write(&f, serde_json::to_string(&texts).unwrap()).expect("write shard");
        files.push(f);
    }

    // ---- run shards concurrently ----
    let mut handles = vec![];
    for (s, f) in files.iter().enumerate() {
        let exe = exe.clone();
        let f = f.clone();
        let n = shard_cases[s].len();
        handles.push(std::thread::spawn(move || run_shard(&exe, &f, n, CAP_MS)));
    }
    let results: Vec<(Vec<Option<Outcome>>, Vec<String>)> = handles.into_iter().map(|h| h.join().expect("shard manager thread")).collect();

    // ---- judge ----
    let mut timeouts: Vec<(usize, usize, u64, u64)> = vec![];
    let mut max_us = 0u64;
    let mut slowest: Option<(u64, usize, usize)> = None;
    for (s, (outs, problems)) in results.iter().enumerate() {
        for p in problems {
            rep.inconclusive(&format!("shard {}: {}", s, p));
        }
        for (i, o) in outs.iter().enumerate() {
            let case = &shard_cases[s][i];
            match o {
                None => {
                    rep.add("inputs_not_executed", 1);
                }
                Some(Outcome::Timeout { cpu_ms, wall_ms }) => {
                    rep.eval();
                    timeouts.push((s, i, *cpu_ms, *wall_ms));
                }
                Some(Outcome::Abort { signal, code, stderr_tail }) => {
                    rep.eval();
                    if stderr_tail.contains("memory allocation of") {
                        rep.add("shard_out_of_memory", 1);
                        rep.inconclusive(&format!("shard {} ran out of memory under the 8 GiB safety limit on input {} (ops {:?})", s, i, case.ops));
                        rep.sample(json!({"out_of_memory_input": head(&case.text), "ops": case.ops}));
                        continue;
                    }
                    let kind = if stderr_tail.contains("overflowed its stack") {
                        "stack-overflow".to_string()
                    } else if let Some(sig) = signal {
                        format!("signal-{}", sig)
                    } else {
                        format!("exit-{}", code.unwrap_or(-1))
                    };
                    rep.violation(
                        &format!("abort/{}", kind),
                        "the process died while parsing this input (parse neither returned Ok nor Err)",
                        json!({"input": case.text, "input_len": case.text.len(), "origin": case.origin, "mutations": case.ops, "signal": signal, "exit_code": code, "stderr_tail": stderr_tail}),
                    );
                }
                Some(Outcome::Result(j)) => {
                    rep.eval();
                    let us = j["us"].as_u64().unwrap_or(0);
                    if us > max_us {
                        max_us = us;
                        slowest = Some((us, s, i));
                    }
                    if let Some(p) = j["panics"].as_u64() {
                        rep.add("internal_panics_absorbed", p);
                        let site = j["panic_site"].as_str().unwrap_or("?").to_string();
                        rep.add(&format!("internal_panics_absorbed@{}", site), p);
                    }
                    match j["k"].as_str() {
                        Some("ok") => {
                            rep.add("parse_ok", 1);
                        }
                        Some("panic") => {
                            let site = j["site"].as_str().unwrap_or("?");
                            rep.violation(
                                &format!("panic/{}", site),
                                "parse() panicked on the calling thread",
                                json!({"input": case.text, "origin": case.origin, "mutations": case.ops, "panic": j["message"], "site": site}),
                            );
                        }
                        Some("err") => {
                            rep.add("parse_err", 1);
                            let variant = j["variant"].as_str().unwrap_or("?").to_string();
                            rep.add(&format!("err_{}", variant), 1);
                            let (located, bad) = judge_location(&case.text, j);
                            if located {
                                rep.add("errors_with_location", 1);
                                // how many located errors fall in each class (the identical-text class is
                                // where locations can be expected to be exact)
                                rep.add(&format!("errors_with_location_{}", preprocess_class(&case.text)), 1);
                                rep.nontrivial(&case.text);
                                if rep.samples.len() < 3 && !case.ops.is_empty() && case.text.len() < 600 {
                                    rep.sample(json!({"origin": case.origin, "mutations": case.ops, "input": case.text, "error": j}));
                                }
                            }
                            if !bad.is_empty() {
                                let class = preprocess_class(&case.text);
                                for (variant, comp, detail) in bad {
                                    rep.violation(
                                        &format!("location/{}/{}/{}", class, variant, comp),
                                        "a parse error reports a location outside the input",
                                        json!({"input": case.text, "input_len": case.text.len(), "input_lines": case.text.split('\n').count(), "origin": case.origin, "mutations": case.ops, "error": j, "out_of_range": detail, "text_seen_by_pest": class}),
                                    );
                                }
                            }
                        }
                        _ => rep.inconclusive("unreadable shard result line"),
                    }
                }
            }
        }
    }
    rep.set("max_parse_us", json!(max_us));
    if let Some((us, s, i)) = slowest {
        rep.set("slowest_input", json!({"us": us, "len": shard_cases[s][i].text.len(), "mutations": shard_cases[s][i].ops, "head": head(&shard_cases[s][i].text)}));
    }

    // ---- inputs over the cap: re-measure alone (the shards are finished now) ----
    rep.add("shard_timeouts", timeouts.len() as u64);
    let max_remeasure = args.pick(6usize, 60usize);
    for (n, (s, i, cpu, wall)) in timeouts.iter().enumerate() {
        let case = &shard_cases[*s][*i];
        if n >= max_remeasure {
            rep.inconclusive(&format!("more than {} inputs over the time cap; the rest not re-measured", max_remeasure));
            break;
        }
        let f = tmp.path().join(format!("alone{}.json", n));
        std::fs::write(&f, serde_json::to_string(&vec![case.text.as_str()]).unwrap()).unwrap();
        let (o, _p) = run_shard(&exe, &f, 1, CAP_MS);
        match &o[0] {
            Some(Outcome::Timeout { cpu_ms, wall_ms }) if *cpu_ms > CAP_MS => rep.violation(
                "time/over-cap-in-isolation",
                "parse burnt more than 10 s of CPU time on an input of <= 8 KiB without returning, in a shard and again when run alone",
                json!({"input": case.text, "input_len": case.text.len(), "origin": case.origin, "mutations": case.ops,
                       "in_shard": {"cpu_ms": cpu, "wall_ms": wall}, "alone": {"cpu_ms": cpu_ms, "wall_ms": wall_ms}, "cap_cpu_ms": CAP_MS}),
            ),
            Some(Outcome::Timeout { cpu_ms, wall_ms }) => rep.inconclusive(&format!(
                "an input hit only the wall-clock backstop when run alone (cpu {} ms, wall {} ms): stalled machine or blocked parse, undecided",
                cpu_ms, wall_ms
            )),
            Some(Outcome::Result(j)) => {
                // it returned within the cap when alone: the bound holds for this input
                rep.add("shard_timeouts_not_reproduced_alone", 1);
                rep.add(&format!("parse_{}", if j["k"] == "ok" { "ok" } else { "err" }), 1);
                let us = j["us"].as_u64().unwrap_or(0);
                if us > max_us {
                    max_us = us;
                    rep.set("max_parse_us", json!(max_us));
                    rep.set("slowest_input", json!({"us": us, "cpu_ms": j["cpu_ms"], "len": case.text.len(), "mutations": case.ops, "head": head(&case.text)}));
                }
            }
            Some(Outcome::Abort { signal, stderr_tail, .. }) => rep.violation(
                if stderr_tail.contains("overflowed its stack") { "abort/stack-overflow" } else { "abort/after-timeout" },
                "the process died while parsing this input alone",
                json!({"input": case.text, "mutations": case.ops, "signal": signal, "stderr_tail": stderr_tail}),
            ),
            None => rep.inconclusive("re-measurement produced no outcome"),
        }
    }
    let code = rep.finish();
    drop(tmp);
    std::process::exit(code);
}
