//! C27 — coordinated multi-context checkpoints form a consistent cut.
//! Monitor: same orchestrator runs as C26 with `trigger_checkpoint` at random input positions;
//! offline trace check per COMPLETED checkpoint id c: for every cross-context event e (A -> B)
//! "forwarded before A handled barrier c" must equal "received by B before B handled barrier c".
//! (true,false): e is in neither snapshot and is not an external input -> lost on restore;
//! (false,true): B's snapshot already contains e's effect and A will produce e again when the
//! inputs after A's barrier are replayed -> duplicated.
#[path = "../ctxrun.rs"]
mod ctxrun;
use ctxrun::*;
use serde_json::json;
use std::collections::BTreeMap;
use vh::*;

fn main() {
    let args = Args::parse();
    install_quiet_panic_hook();
    watchdog("C27", args.pick(1500, 14400));
    let mut rep = Report::new("C27", "exploration", &args);
    rep.rule = "multi-context programs as in C26 (2-3 contexts, cross-context derived streams, capacities 4..1000 so that forwards are not lost; every second run uses capacities 1-3, 3-8 triggers and drains acknowledgements only every 1-12 inputs), 40-200 input events, 1-4 coordinated checkpoints triggered at random input positions through ContextOrchestrator::trigger_checkpoint / try_complete_checkpoint, hook H7 perturbation; every completed checkpoint is checked on the recorded trace. Non-trivial: completed checkpoint with >=1 cross-context event in flight at some barrier (forwarded before the producer's barrier, received after it, or vice versa around the consumer's barrier); distinct by hash of the trace order. Interleavings are sampled, not enumerated; the evidence counts the distinct ones seen.".into();
    rep.assume("a checkpoint is 'completed' when try_complete_checkpoint reported completion; snapshots are taken where hook H7 logs the barrier (immediately before create_checkpoint)");
    rep.assume("the model-checking half of the property's quantifier is out of this technique family; the end-to-end restore+replay confirmation is not built: the verdict rests on the cut condition over the trace");
    #[cfg(not(varpulis_verif))]
    rep.inconclusive("built without --cfg varpulis_verif");
    let runs = args.pick(200usize, 1500usize);
    let mut rng = Rng::new(args.seed ^ 0xC27);
    let mut interleavings = std::collections::BTreeSet::new();
    let mut checked = 0u64;
    let budget = std::time::Instant::now();
    let max_secs = args.pick(240u64, 3000u64);
    for run in 0..runs {
        if budget.elapsed().as_secs() > max_secs {
            rep.set("stopped_early_after_runs", json!(run));
            break;
        }
        let p = gen_cprog(&mut rng);
        if p.cross_edges().is_empty() {
            continue;
        }
        let n = 40 + rng.below(args.pick(100, 160));
        let events = gen_events(&mut rng, n);
        // every second run: tiny queues (a barrier may find a queue full), more triggers, acknowledgements drained
        // only every few inputs as a periodic checkpoint_tick would
        let tight = rng.chance(1, 2);
        let nck = if tight { 3 + rng.below(6) } else { 1 + rng.below(4) };
        let cfg = RunCfg {
            capacity: if tight { *rng.pick(&[1usize, 2, 3]) } else { *rng.pick(&[4usize, 16, 64, 1000]) },
            perturb_permille: *rng.pick(&[0u64, 100, 300, 600]),
            perturb_max_us: *rng.pick(&[1u64, 50, 300]),
            seed: rng.next_u64(),
            checkpoints_at: (0..nck).map(|_| rng.below(n)).collect(),
            stable_ms: 120,
            drain_every: if tight { 1 + rng.below(12) } else { 1 },
        };
        rep.eval();
        let out = run_contexts(&p, &events, &cfg);
        if let Some(e) = &out.build_error {
            rep.add("programs_rejected", 1);
            if rep.samples.len() < 2 {
                rep.sample(json!({"rejected": p.vpl(true), "error": e}));
            }
            continue;
        }
        // positions
        let mut barrier_seq: BTreeMap<(String, i64), u64> = BTreeMap::new();
        let mut fwd: Vec<(String, String, String, i64, u64)> = vec![]; // from,to,type,uid,seq
        let mut rcv: BTreeMap<(String, String, i64), u64> = BTreeMap::new(); // (ctx,type,uid) -> first seq
        let mut order_hash = vec![];
        for t in &out.trace {
            order_hash.push((t.ctx.clone(), t.kind));
            match t.kind {
                "barrier" => {
                    barrier_seq.insert((t.ctx.clone(), t.id), t.seq);
                }
                "forward" if t.ctx != t.target => fwd.push((t.ctx.clone(), t.target.clone(), t.event_type.clone(), t.id, t.seq)),
                "recv" => {
                    rcv.entry((t.ctx.clone(), t.event_type.clone(), t.id)).or_insert(t.seq);
                }
                _ => {}
            }
        }
        interleavings.insert(hash64(&order_hash));
        let ids: std::collections::BTreeSet<i64> = barrier_seq.keys().map(|(_, id)| *id).collect();
        let nctx = p.nctx;
        for id in ids {
            // completed = every context handled this barrier
            let handled = barrier_seq.keys().filter(|(_, i)| *i == id).count();
            if handled < nctx {
                rep.add("checkpoints_not_handled_by_all_contexts", 1);
                continue;
            }
            if (id as usize) > out.completed_checkpoints.len() {
                rep.add("checkpoints_not_reported_complete", 1);
                continue;
            }
            checked += 1;
            // the stored checkpoint must hold one snapshot per context, each taken exactly at the
            // barrier position: its events_processed counter == events that context received before
            // handling the barrier (hook H7 trace)
            match out.stored.get(&(id as u64)) {
                None => rep.violation("stored/completed-checkpoint-missing", "a checkpoint reported complete is not in the store", json!({"program": p.vpl(true), "checkpoint_id": id, "stored_ids": out.stored.keys().collect::<Vec<_>>()})),
                Some(per_ctx) => {
                    for c in 0..nctx {
                        let name = format!("c{}", c);
                        let bseq = barrier_seq[&(name.clone(), id)];
                        let recv_before = out.trace.iter().filter(|t| t.kind == "recv" && t.ctx == name && t.seq < bseq).count() as u64;
                        match per_ctx.get(&name) {
                            None => rep.violation("stored/context-snapshot-missing", "a completed checkpoint lacks the snapshot of a context", json!({"program": p.vpl(true), "checkpoint_id": id, "context": name})),
                            Some(n) if *n != recv_before => rep.violation("stored/snapshot-not-at-barrier-position", "a context's snapshot does not reflect exactly the events it had received when it handled the barrier", json!({"program": p.vpl(true), "checkpoint_id": id, "context": name, "snapshot_events_processed": n, "received_before_barrier": recv_before})),
                            _ => rep.add("context_snapshots_at_barrier_position", 1),
                        }
                    }
                }
            }
            let mut in_flight = 0u64;
            let mut lost = vec![];
            let mut dup = vec![];
            for (from, to, ty, uid, fseq) in &fwd {
                let (ba, bb) = (barrier_seq[&(from.clone(), id)], barrier_seq[&(to.clone(), id)]);
                let fwd_before = *fseq < ba;
                let rseq = rcv.get(&(to.clone(), ty.clone(), *uid)).copied();
                let proc_before = match rseq {
                    Some(r) => r < bb,
                    None => false, // never received (C26's subject when lost); not before the barrier in any case
                };
                if fwd_before != proc_before {
                    in_flight += 1;
                    if fwd_before && !proc_before {
                        lost.push(json!({"from": from, "to": to, "type": ty, "uid": uid}));
                    } else {
                        dup.push(json!({"from": from, "to": to, "type": ty, "uid": uid}));
                    }
                }
            }
            if in_flight > 0 {
                rep.nontrivial(&(order_hash.clone(), id));
            }
            let wit = |what: &str, evs: &Vec<serde_json::Value>| json!({"program": p.vpl(true), "events": events.len(), "capacity": cfg.capacity, "checkpoints_at": cfg.checkpoints_at, "perturb_permille": cfg.perturb_permille, "seed": cfg.seed, "checkpoint_id": id, "what": what, "cross_context_events": evs.iter().take(8).collect::<Vec<_>>(), "count": evs.len()});
            // one root cause (barriers are injected into every context's queue instead of flowing
            // with the data, so nothing aligns them with in-flight cross-context events): one signature;
            // the witness says which of the two shapes was seen.
            if !lost.is_empty() || !dup.is_empty() {
                rep.add("inconsistent_cuts_lost_shape", (!lost.is_empty()) as u64);
                rep.add("inconsistent_cuts_duplicate_shape", (!dup.is_empty()) as u64);
                let mut w = wit("lost shape: forwarded before the producer's barrier, processed after the consumer's barrier (in no snapshot, not replayable)", &lost);
                w["duplicate_shape_events"] = json!(dup.iter().take(8).collect::<Vec<_>>());
                w["duplicate_shape_meaning"] = json!("forwarded after the producer's barrier, processed before the consumer's barrier (replay produces it again)");
                rep.violation("cut/barrier-not-aligned-with-in-flight-cross-context-events", "a completed coordinated checkpoint is not a consistent cut", w);
            }
        }
        if rep.samples.len() < 2 && !out.completed_checkpoints.is_empty() {
            rep.sample(json!({"program": p.vpl(true), "events": events.len(), "checkpoints_at": cfg.checkpoints_at, "completed": out.completed_checkpoints, "trace_entries": out.trace.len()}));
        }
    }
    rep.set("distinct_interleavings_seen", json!(interleavings.len()));
    rep.set("completed_checkpoints_checked", json!(checked));
    std::process::exit(rep.finish());
}
