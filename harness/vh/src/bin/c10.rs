//! C10 — compile-time constant folding never changes what an expression computes.
//! Monitor (differential): the SAME source text is parsed with the folding pass (`parse`) and
//! without it (hook H3 `parse_unfolded`); both ASTs are evaluated by the real evaluator on
//! events whose fields take every value type, and loaded into two real engines; results must
//! be equal (same absence, same variant, same value).
use serde_json::json;
use varpulis_core::ast::{Expr, Program, Stmt, StreamOp};
use varpulis_core::Value;
use varpulis_runtime::engine::evaluator::eval_expr_with_functions;
use varpulis_runtime::engine::Engine;
use varpulis_runtime::event::Event;
use varpulis_runtime::sequence::SequenceContext;
use vh::eng::*;
use vh::*;

#[derive(Clone, Debug, Hash, PartialEq, Eq)]
enum GE {
    Lit(&'static str),
    Field(&'static str),
    Un(&'static str, Box<GE>),
    Bin(&'static str, Box<GE>, Box<GE>),
}

const LITS: [&str; 14] = ["0", "1", "2", "3", "7", "9223372036854775807", "0.0", "1.0", "0.5", "2.5", "1e308", "true", "false", "\"s\""];
const ARITH: [&str; 6] = ["+", "-", "*", "/", "%", "**"];
const CMP: [&str; 6] = ["==", "!=", "<", "<=", ">", ">="];

impl GE {
    fn txt(&self) -> String {
        match self {
            GE::Lit(s) => s.to_string(),
            GE::Field(f) => f.to_string(),
            GE::Un(op, e) => format!("({}{})", if *op == "not" { "not " } else { op }, e.txt()),
            GE::Bin(op, a, b) => format!("({} {} {})", a.txt(), op, b.txt()),
        }
    }
    fn class(&self) -> String {
        match self {
            GE::Lit("0") => "lit-int-0".into(),
            GE::Lit("1") => "lit-int-1".into(),
            GE::Lit(s) if s.contains('.') || s.contains('e') => "lit-float".into(),
            GE::Lit(s) if s.starts_with('"') => "lit-str".into(),
            GE::Lit("true") | GE::Lit("false") => "lit-bool".into(),
            GE::Lit(_) => "lit-int".into(),
            GE::Field(_) => "field".into(),
            _ => "expr".into(),
        }
    }
    fn children(&self) -> Vec<&GE> {
        match self {
            GE::Un(_, e) => vec![e],
            GE::Bin(_, a, b) => vec![a, b],
            _ => vec![],
        }
    }
}

fn gen(rng: &mut Rng, depth: usize) -> GE {
    if depth == 0 || rng.chance(1, 4) {
        return if rng.chance(2, 5) { GE::Field(*rng.pick(&["x", "y"])) } else { GE::Lit(*rng.pick(&LITS)) };
    }
    match rng.below(10) {
        0 => GE::Un("-", Box::new(gen(rng, depth - 1))),
        1 => GE::Un("not", Box::new(gen(rng, depth - 1))),
        2 => GE::Bin(*rng.pick(&["and", "or"]), Box::new(gen(rng, depth - 1)), Box::new(gen(rng, depth - 1))),
        3 => GE::Bin(*rng.pick(&CMP), Box::new(gen(rng, depth - 1)), Box::new(gen(rng, depth - 1))),
        4 if depth >= 2 => {
            // left-nested chains with two literals and one operator: (e OP c1) OP c2
            let op = *rng.pick(&["+", "*", "-"]);
            let e = if rng.chance(2, 3) { GE::Field(*rng.pick(&["x", "y"])) } else { gen(rng, depth - 2) };
            let c1 = GE::Lit(*rng.pick(&["1", "2", "3", "7"]));
            let c2 = GE::Lit(*rng.pick(&["1", "2", "3", "7"]));
            GE::Bin(op, Box::new(GE::Bin(op, Box::new(e), Box::new(c1))), Box::new(c2))
        }
        _ => {
            // bias towards the identity shapes the folder rewrites
            let op = *rng.pick(&ARITH);
            let a = gen(rng, depth - 1);
            let b = if rng.chance(1, 3) { GE::Lit(*rng.pick(&["0", "1"])) } else { gen(rng, depth - 1) };
            if rng.chance(1, 4) { GE::Bin(op, Box::new(b), Box::new(a)) } else { GE::Bin(op, Box::new(a), Box::new(b)) }
        }
    }
}

fn field_values() -> Vec<(&'static str, Option<Value>)> {
    vec![
        ("int", Some(Value::Int(5))),
        ("int-0", Some(Value::Int(0))),
        ("int-neg", Some(Value::Int(-3))),
        ("int-max", Some(Value::Int(i64::MAX))),
        ("float", Some(Value::Float(2.5))),
        ("float-neg0", Some(Value::Float(-0.0))),
        ("float-nan", Some(Value::Float(f64::NAN))),
        ("float-inf", Some(Value::Float(f64::INFINITY))),
        // floats on which re-association of constants is visible: spacing 2 at 2^53, non-dyadic 0.1
        ("float-2p53", Some(Value::Float(9007199254740992.0))),
        ("float-tenth", Some(Value::Float(0.1))),
        ("str", Some(Value::Str("ab".into()))),
        ("bool", Some(Value::Bool(true))),
        ("null", Some(Value::Null)),
        ("missing", None),
    ]
}

fn emit_expr(p: &Program) -> Option<Expr> {
    for s in &p.statements {
        if let Stmt::StreamDecl { ops, .. } = &s.node {
            for op in ops {
                if let StreamOp::Emit { fields, .. } = op {
                    return fields.first().map(|f| f.value.clone());
                }
            }
        }
    }
    None
}

fn same(a: &Option<Value>, b: &Option<Value>) -> bool {
    match (a, b) {
        (None, None) => true,
        (Some(Value::Float(x)), Some(Value::Float(y))) => (x.is_nan() && y.is_nan()) || (x == y && x.is_sign_negative() == y.is_sign_negative()),
        (Some(x), Some(y)) => std::mem::discriminant(x) == std::mem::discriminant(y) && x == y,
        _ => false,
    }
}

fn show(v: &Option<Value>) -> String {
    match v {
        None => "<no value>".into(),
        Some(v) => format!("{:?}", v),
    }
}

fn mk_event(xv: &Option<Value>, yv: &Option<Value>) -> Event {
    let mut e = Event::new_at("E", ts_ms(0));
    e.data.insert("uid".into(), Value::Int(1));
    if let Some(v) = xv {
        e.data.insert("x".into(), v.clone());
    }
    if let Some(v) = yv {
        e.data.insert("y".into(), v.clone());
    }
    e
}

#[cfg(varpulis_verif)]
fn parse_both(src: &str) -> Option<(Program, Program)> {
    let f = varpulis_parser::parse(src).ok()?;
    let u = varpulis_parser::pest_parser::parse_unfolded(src).ok()?;
    Some((f, u))
}
#[cfg(not(varpulis_verif))]
fn parse_both(_src: &str) -> Option<(Program, Program)> {
    None
}

/// All subtrees of `g` in pre-order, with the indices of their children.
fn flatten(g: &GE, out: &mut Vec<(GE, Vec<usize>)>) -> usize {
    let me = out.len();
    out.push((g.clone(), vec![]));
    let mut kids = vec![];
    for c in g.children() {
        kids.push(flatten(c, out));
    }
    out[me].1 = kids;
    me
}

fn emit_exprs(p: &Program) -> Option<Vec<Expr>> {
    for s in &p.statements {
        if let Stmt::StreamDecl { ops, .. } = &s.node {
            for op in ops {
                if let StreamOp::Emit { fields, .. } = op {
                    return Some(fields.iter().map(|f| f.value.clone()).collect());
                }
            }
        }
    }
    None
}

struct Parsed {
    subs: Vec<(GE, Vec<usize>)>,
    ef: Vec<Expr>,
    eu: Vec<Expr>,
    rewritten: bool,
}

/// Parse every subtree of `g` once (one program whose emit has one field per subtree), with
/// and without folding.
fn parse_pair(g: &GE) -> Option<Parsed> {
    let mut subs = vec![];
    flatten(g, &mut subs);
    let fields: Vec<String> = subs.iter().enumerate().map(|(i, (e, _))| format!("r{}: {}", i, e.txt())).collect();
    let src = format!("stream S = E\n    .emit({})\n", fields.join(", "));
    let (pf, pu) = parse_both(&src)?;
    let (ef, eu) = (emit_exprs(&pf)?, emit_exprs(&pu)?);
    if ef.len() != subs.len() || eu.len() != subs.len() {
        return None;
    }
    let rewritten = format!("{:?}", ef[0]) != format!("{:?}", eu[0]);
    Some(Parsed { subs, ef, eu, rewritten })
}

/// Evaluate the folded/unfolded pair on one event. None = not comparable (an evaluation
/// panicked, which is C11's subject).
fn eval_exprs(ef: &Expr, eu: &Expr, e: &Event) -> Option<(Option<Value>, Option<Value>)> {
    let ctx = SequenceContext::new();
    let fns = Default::default();
    let b = Default::default();
    let vu = catch(std::panic::AssertUnwindSafe(|| eval_expr_with_functions(eu, e, &ctx, &fns, &b))).ok()?;
    let vf = catch(std::panic::AssertUnwindSafe(|| eval_expr_with_functions(ef, e, &ctx, &fns, &b))).ok()?;
    Some((vf, vu))
}

/// Index of the smallest subtree that still evaluates differently.
fn minimise(p: &Parsed, e: &Event) -> usize {
    let mut cur = 0usize;
    loop {
        let mut next = None;
        for &c in &p.subs[cur].1 {
            if let Some((vf, vu)) = eval_exprs(&p.ef[c], &p.eu[c], e) {
                if !same(&vf, &vu) {
                    next = Some(c);
                    break;
                }
            }
        }
        match next {
            Some(n) => cur = n,
            None => return cur,
        }
    }
}

fn kind_of(v: &Option<Value>) -> &'static str {
    match v {
        None => "novalue",
        Some(Value::Int(_)) => "int",
        Some(Value::Float(_)) => "float",
        Some(Value::Str(_)) => "str",
        Some(Value::Bool(_)) => "bool",
        Some(Value::Null) => "null",
        Some(_) => "other",
    }
}

/// Signature of a disagreement located at subtree `m`: which folding rule is involved and
/// the runtime kind of the operand(s) it is applied to (finite enumerations only).
fn signature(p: &Parsed, m: usize, e: &Event) -> String {
    let (g, kids) = &p.subs[m];
    let operand_kind = |i: usize| -> &'static str {
        let ctx = SequenceContext::new();
        let fns = Default::default();
        let b = Default::default();
        match catch(std::panic::AssertUnwindSafe(|| eval_expr_with_functions(&p.eu[i], e, &ctx, &fns, &b))) {
            Ok(v) => kind_of(&v),
            Err(_) => "panic",
        }
    };
    match g {
        GE::Bin(op, a, b) => {
            let (ka, kb) = (operand_kind(kids[0]), operand_kind(kids[1]));
            // after the children were folded, is this operand the integer literal l?
            let _ = (a, b);
            let isf = |i: usize, l: i64| matches!(&p.ef[i], Expr::Int(n) if *n == l);
            let (a, b) = (kids[0], kids[1]);
            let is = |x: usize, l: &str| isf(x, l.parse::<i64>().unwrap());
            // identity shapes the folder rewrites without knowing the other operand's type
            let ident = match (*op, is(a, "0"), is(a, "1"), is(b, "0"), is(b, "1")) {
                ("*", _, _, true, _) => Some(("x*0", ka)),
                ("*", true, _, _, _) => Some(("0*x", kb)),
                ("*", _, _, _, true) => Some(("x*1", ka)),
                ("*", _, true, _, _) => Some(("1*x", kb)),
                ("+", _, _, true, _) => Some(("x+0", ka)),
                ("+", true, _, _, _) => Some(("0+x", kb)),
                ("-", _, _, true, _) => Some(("x-0", ka)),
                ("/", _, _, _, true) => Some(("x/1", ka)),
                _ => None,
            };
            if let Some((shape, k)) = ident {
                return format!("identity-fold/{}/operand-{}", shape, if k == "int" { "int" } else { "non-int" });
            }
            format!("const-fold/{}/{}-{}", op, ka, kb)
        }
        GE::Un(op, _) => format!("const-fold/unary{}/{}", op, operand_kind(kids[0])),
        _ => "leaf".to_string(),
    }
}

fn run_engine(p: &Program, evs: &[Event], rt: &tokio::runtime::Runtime) -> Result<Vec<String>, String> {
    let (tx, mut rx) = tokio::sync::mpsc::channel::<Event>(10_000);
    let mut eng = Engine::new(tx);
    eng.load(p)?;
    let mut out = vec![];
    for e in evs {
        rt.block_on(eng.process(e.clone()))?;
        while let Ok(o) = rx.try_recv() {
            out.push(format!("{}:{:?}", o.event_type, o.data.iter().map(|(k, v)| (k.to_string(), format!("{:?}", v))).collect::<Vec<_>>()));
        }
    }
    Ok(out)
}

fn main() {
    let args = Args::parse();
    install_quiet_panic_hook();
    watchdog("C10", args.pick(1200, 14400));
    let mut rep = Report::new("C10", "exploration", &args);
    rep.rule = "random arithmetic/boolean expressions of depth <=4 over literals (0, 1, small ints, i64::MAX, floats incl. 0.0/1e308, booleans, a string) and fields x, y, biased towards the identity shapes (e OP 0, e OP 1, both orders); each parsed with and without folding (hook H3) and evaluated on events where x takes 14 value kinds (ints incl. 0/negative/max, floats incl. -0.0/NaN/inf/2^53/0.1, string, bool, null, missing) and y is an int or a float; also loaded end-to-end in `.emit(r: e)`, `.where(e)` and `.having(e)` contexts. Non-trivial: expression in which the folder rewrote >=1 node; distinct by expression text.".into();
    rep.assume("cases where evaluating the UNFOLDED expression panics (e.g. integer overflow) are not compared: that is C11's subject and is counted as skipped_unfolded_panics");
    #[cfg(not(varpulis_verif))]
    rep.inconclusive("built without --cfg varpulis_verif: parse_unfolded (hook H3) unavailable");
    let threads = ncpu();
    let cases = args.opt("--cases").and_then(|c| c.parse().ok()).unwrap_or(args.pick(6000usize, 400_000usize));
    let per_thread = cases / threads + 1;
    let parts = parallel(threads, args.seed ^ 0xC10, move |_ti, mut rng| {
        let mut out = Partial::default();
        let rt = rt();
        let fv = field_values();
        for i in 0..per_thread {
            let d = 1 + rng.below(4);
            let g = gen(&mut rng, d);
            if std::env::var("C10_TRACE").is_ok() { eprintln!("{}", g.txt()); }
            out.eval();
            let yv = if rng.chance(1, 2) { Some(Value::Int(3)) } else { Some(Value::Float(1.5)) };
            let mut rewritten_any = false;
            let mut skipped = false;
            let mut eval_differs = false;
            let parsed = match parse_pair(&g) {
                Some(p) => p,
                None => {
                    out.add("unparseable", 1);
                    continue;
                }
            };
            rewritten_any |= parsed.rewritten;
            for (_kind, xv) in &fv {
                let e = mk_event(xv, &yv);
                match eval_exprs(&parsed.ef[0], &parsed.eu[0], &e) {
                    None => {
                        skipped = true;
                    }
                    Some((vf, vu)) => {
                        out.add("evaluations_compared", 1);
                        if !same(&vf, &vu) {
                            eval_differs = true;
                            let m = minimise(&parsed, &e);
                            let sig = format!("eval/{}", signature(&parsed, m, &e));
                            out.violation(&sig, "folded and unfolded expression evaluate differently", json!({"expression": g.txt(), "minimal_subexpression": parsed.subs[m].0.txt(), "x": show(xv), "y": show(&yv), "folded_result": show(&vf), "unfolded_result": show(&vu)}));
                        }
                    }
                }
            }
            if skipped {
                out.add("skipped_unfolded_panics_or_parse_errors", 1);
            }
            if rewritten_any {
                out.nontrivial(&g.txt());
                if out.samples.len() < 3 {
                    out.sample(json!({"expression": g.txt()}));
                }
            }
            // end-to-end lane
            if i % 8 == 0 && rewritten_any {
                let ctxs = [
                    ("emit", format!("stream S = E\n    .emit(u: uid, r: {})\n", g.txt())),
                    ("where", format!("stream S = E\n    .where({})\n    .emit(u: uid)\n", g.txt())),
                    ("having", format!("stream S = E\n    .window(1)\n    .aggregate(x: last(x), y: last(y), u: last(uid))\n    .having({})\n    .emit(u: u)\n", g.txt())),
                ];
                let evs: Vec<Event> = fv.iter().enumerate().map(|(j, (_, xv))| { let mut e = mk_event(xv, &yv); e.data.insert("uid".into(), Value::Int(j as i64)); e }).collect();
                for (cname, src) in ctxs.iter() {
                    if let Some((pf, pu)) = parse_both(src) {
                        let ru = catch(std::panic::AssertUnwindSafe(|| run_engine(&pu, &evs, &rt)));
                        let rf = catch(std::panic::AssertUnwindSafe(|| run_engine(&pf, &evs, &rt)));
                        match (rf, ru) {
                            (Ok(Ok(a)), Ok(Ok(b))) => {
                                out.add("engine_runs_compared", 1);
                                if a != b && eval_differs {
                                    // same root cause as the evaluator-lane disagreement already reported for this expression
                                    out.add("engine_disagreements_explained_by_eval_lane", 1);
                                } else if a != b {
                                    out.violation(&format!("engine/{}/outputs-differ", cname), "engine outputs differ between the folded and the unfolded program", json!({"program": src, "folded_outputs": a, "unfolded_outputs": b, "x_values": fv.iter().map(|(k, _)| *k).collect::<Vec<_>>()}));
                                }
                            }
                            (_, Err(_)) | (_, Ok(Err(_))) => out.add("engine_unfolded_failed", 1),
                            (Err(p), _) => out.violation(&format!("engine/{}/folded-panics", cname), "folded program panics where the unfolded one does not", json!({"program": src, "panic": p})),
                            (Ok(Err(e)), _) => out.violation(&format!("engine/{}/folded-fails", cname), "folded program fails where the unfolded one does not", json!({"program": src, "error": e})),
                        }
                    }
                }
            }
        }
        out
    });
    for p in parts {
        rep.merge(p);
    }
    std::process::exit(rep.finish());
}
