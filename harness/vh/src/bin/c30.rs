//! C30 — rate limiting never admits more than burst + rate x elapsed time.
//!
//! Monitor: the real `RateLimiter::check` under the H8 virtual clock of the cluster crate
//! (`varpulis_cluster::verif::clock_advance`; the bucket sees real monotonic time + a forward
//! offset). The clock is process-global, so the whole workload is single-threaded.
//!
//! Workload: request sequences (<= 200 requests) of interleaved client IPs with gaps of 0,
//! milliseconds, multiples of 1/rate, 0-3 s and long idles; rates 0..=50, bursts 0..=20,
//! tracked-IP capacity 1..=4 with up to capacity+2 clients (so that evictions happen).
//!
//! Oracle (own bookkeeping, no token arithmetic copied):
//!  * per client and *tracked episode* (from the request that creates its bucket until the
//!    model evicts it: a new IP at full capacity evicts the IP whose last request is oldest),
//!    for every pair i <= j of admitted requests: (j - i + 1) <= burst + rate * (t_j - t_i) + 1e-6,
//!    where t_j - t_i is an UPPER bound of the time the limiter can have seen (harness clock
//!    read after call j minus harness clock read before call i, both = real + virtual offset);
//!  * every `Limited` carries a finite retry_after;
//!  * no call panics (`catch`), for every configuration the constructors accept
//!    (`RateLimitConfig::with_burst` validates nothing, so rate 0 and burst 0 are accepted).
//! The model's tracked set is cross-checked against `client_count()` after every request;
//! a disagreement is INCONCLUSIVE (eviction model out of date), never a violation.
//!
//! Signatures: `bound-exceeded/<no-eviction|after-eviction>/<rate-zero|rate-pos>/<burst-zero|burst-pos>`,
//! `panic/<rate-zero|rate-pos>`, `retry-after-not-finite/<rate-zero|rate-pos>`.
use serde_json::{json, Value as J};
use std::net::{IpAddr, Ipv4Addr};
use std::time::{Duration, Instant};
use varpulis_cluster::rate_limit::{RateLimitConfig, RateLimitResult, RateLimiter};
use varpulis_cluster::verif::{clock_advance, clock_offset};
use vh::*;

#[derive(Clone, Debug)]
struct Case {
    rate: u32,
    burst: u32,
    cap: usize,
    /// (gap before the request in ns of virtual time, client index)
    reqs: Vec<(u64, usize)>,
}

fn ip_of(c: usize) -> IpAddr {
    IpAddr::V4(Ipv4Addr::new(10, 0, 0, 1 + c as u8))
}

fn gen_case(rng: &mut Rng, max_len: usize) -> Case {
    let rate = match rng.below(10) {
        0 => 0,
        1 => 1,
        2 => 2,
        3 => 50,
        4 => *rng.pick(&[3u32, 5, 10, 20]),
        _ => rng.range(0, 50) as u32,
    };
    let burst = match rng.below(8) {
        0 => 0,
        1 => 1,
        2 => 2,
        3 => 20,
        _ => rng.range(0, 20) as u32,
    };
    let cap = 1 + rng.below(4);
    let nclients = 1 + rng.below(cap + 2);
    let n = if rng.chance(1, 4) { 1 + rng.below(12) } else { 1 + rng.below(max_len) };
    // a "style" per case so that some cases hammer (rejections) and others idle (refills)
    let style = rng.below(4);
    let main_client = rng.below(nclients);
    let mut reqs = Vec::with_capacity(n);
    for _ in 0..n {
        let r = rng.below(100);
        let zero_pct = [70, 45, 20, 50][style];
        let gap_ns: u64 = if r < zero_pct {
            0
        } else if r < zero_pct + 12 {
            1_000_000 * rng.range(1, 50) as u64
        } else if r < zero_pct + 24 && rate > 0 {
            // k token periods, sometimes a hair short / long
            let period = 1_000_000_000u64 / rate as u64;
            let k = rng.range(1, 4) as u64;
            match rng.below(3) {
                0 => (period * k).saturating_sub(1_000_000),
                1 => period * k,
                _ => period * k + 1_000_000,
            }
        } else if r < 97 {
            1_000_000 * rng.range(0, 3000) as u64
        } else {
            1_000_000_000 * rng.range(10, 3600) as u64
        };
        let c = if rng.chance(3, 5) { main_client } else { rng.below(nclients) };
        reqs.push((gap_ns, c));
    }
    Case { rate, burst, cap, reqs }
}

#[derive(Clone, Debug)]
struct Obs {
    client: usize,
    /// virtual time of the request (sum of gaps), for the witness
    vt_ns: u64,
    before_ns: u128,
    /// "allowed" | "limited" | "panic"
    result: &'static str,
    detail: String,
}

struct Episode {
    evicted_before: bool,
    /// indices into obs of admitted requests
    admitted: Vec<usize>,
    rejected: usize,
    pattern: Vec<(u64, bool)>,
}

fn classes(c: &Case) -> (&'static str, &'static str) {
    (if c.rate == 0 { "rate-zero" } else { "rate-pos" }, if c.burst == 0 { "burst-zero" } else { "burst-pos" })
}

fn case_json(c: &Case, obs: &[Obs], upto: usize) -> J {
    let mut reqs = vec![];
    for (i, o) in obs.iter().enumerate().take(upto + 1) {
        reqs.push(json!({"n": i, "ip": ip_of(o.client).to_string(), "gap_before_s": c.reqs[i].0 as f64 / 1e9,
            "virtual_t_s": o.vt_ns as f64 / 1e9, "result": o.result, "detail": o.detail}));
    }
    json!({"config": {"requests_per_second": c.rate, "burst_size": c.burst, "max_tracked_ips": c.cap, "constructor": "RateLimitConfig::with_burst(rate, burst) + max_tracked_ips"},
        "requests": reqs,
        "replay": "for each request: varpulis_cluster::verif::clock_advance(gap) then RateLimiter::check(ip).await"})
}

fn run_case(c: &Case, rt: &tokio::runtime::Runtime, t0: Instant, out: &mut Partial, want_sample: bool) {
    let mut cfg = RateLimitConfig::with_burst(c.rate, c.burst);
    cfg.max_tracked_ips = c.cap;
    let limiter = RateLimiter::new(cfg);
    let (rc, bc) = classes(c);
    let mut obs: Vec<Obs> = Vec::with_capacity(c.reqs.len());
    // model: tracked clients with the sequence number of their last request
    let mut tracked: Vec<(usize, usize)> = vec![];
    let mut ever_evicted: Vec<bool> = vec![false; 8];
    let mut episodes: Vec<Option<Episode>> = (0..8).map(|_| None).collect();
    let mut vt: u64 = 0;
    let mut last_after = Instant::now();
    let mut bound_reported = false;
    out.eval();

    let close_episode = |ep: Episode, out: &mut Partial, c: &Case| {
        out.add("episodes", 1);
        if ep.rejected >= 1 && ep.admitted.len() as u64 > c.burst as u64 {
            out.nontrivial(&(c.rate, c.burst, c.cap, ep.pattern.clone()));
            out.add("episodes_with_refill_and_rejection", 1);
        }
        if ep.evicted_before {
            out.add("episodes_after_eviction", 1);
        }
    };

    for (n, &(gap, client)) in c.reqs.iter().enumerate() {
        if gap > 0 {
            clock_advance(Duration::from_nanos(gap));
            vt += gap;
        }
        // strictly increasing real time between requests: `last_update` ties would make the
        // limiter's LRU choice depend on HashMap order
        let mut now = Instant::now();
        while now <= last_after {
            now = Instant::now();
        }
        let before_ns = now.duration_since(t0).as_nanos() + clock_offset().as_nanos();
        // ---- model: eviction / episode start ----
        let is_tracked = tracked.iter().any(|t| t.0 == client);
        if !is_tracked {
            if tracked.len() >= c.cap {
                // evict the client whose last request is oldest
                let (pos, _) = tracked.iter().enumerate().min_by_key(|(_, t)| t.1).expect("non-empty");
                let victim = tracked.remove(pos).0;
                ever_evicted[victim] = true;
                out.add("model_evictions", 1);
                if let Some(ep) = episodes[victim].take() {
                    close_episode(ep, out, c);
                }
            }
            tracked.push((client, n));
            episodes[client] = Some(Episode { evicted_before: ever_evicted[client], admitted: vec![], rejected: 0, pattern: vec![] });
        } else {
            for t in tracked.iter_mut() {
                if t.0 == client {
                    t.1 = n;
                }
            }
        }
        // ---- the real call ----
        let ip = ip_of(client);
        let r = catch(std::panic::AssertUnwindSafe(|| rt.block_on(limiter.check(ip))));
        let after_i = Instant::now();
        last_after = after_i;
        let after_ns = after_i.duration_since(t0).as_nanos() + clock_offset().as_nanos();
        out.add("requests", 1);
        match r {
            Err(p) => {
                obs.push(Obs { client, vt_ns: vt, before_ns, result: "panic", detail: p.clone() });
                let mut w = case_json(c, &obs, n);
                w["panic"] = json!(p);
                w["panic_site"] = json!(panic_site(&last_panic_location()));
                out.violation(&format!("panic/{}", rc), "RateLimiter::check panics for a configuration the constructor accepted", w);
                break;
            }
            Ok(RateLimitResult::Allowed { remaining, reset_after }) => {
                obs.push(Obs { client, vt_ns: vt, before_ns, result: "allowed", detail: format!("remaining={} reset_after={:?}", remaining, reset_after) });
                out.add("admitted", 1);
                let ep = episodes[client].as_mut().expect("episode");
                ep.admitted.push(n);
                ep.pattern.push((gap, true));
                // pairwise bound against every earlier admission of this episode
                let j = ep.admitted.len() - 1;
                for i in 0..=j {
                    let oi = &obs[ep.admitted[i]];
                    let dt = (after_ns - oi.before_ns) as f64 / 1e9;
                    let count = (j - i + 1) as f64;
                    let bound = c.burst as f64 + c.rate as f64 * dt + 1e-6;
                    out.add("pair_comparisons", 1);
                    if count > bound && !bound_reported {
                        bound_reported = true;
                        let mut w = case_json(c, &obs, n);
                        w["violating_interval"] = json!({"first_admitted_request": ep.admitted[i], "last_admitted_request": n,
                            "admitted_in_interval": count, "interval_upper_bound_s": dt, "allowed_at_most": bound,
                            "client": ip.to_string(), "episode_started_after_eviction": ep.evicted_before});
                        out.violation(
                            &format!("bound-exceeded/{}/{}/{}", if ep.evicted_before { "after-eviction" } else { "no-eviction" }, rc, bc),
                            "more requests admitted in an interval than burst + rate x interval length while the client was tracked", w);
                    }
                }
            }
            Ok(RateLimitResult::Limited { retry_after }) => {
                obs.push(Obs { client, vt_ns: vt, before_ns, result: "limited", detail: format!("retry_after={:?}", retry_after) });
                out.add("limited", 1);
                let ep = episodes[client].as_mut().expect("episode");
                ep.rejected += 1;
                ep.pattern.push((gap, false));
                if !retry_after.as_secs_f64().is_finite() {
                    let w = case_json(c, &obs, n);
                    out.violation(&format!("retry-after-not-finite/{}", rc), "a rejected request got a non-finite retry-after", w);
                }
            }
        }
        // ---- model cross-check ----
        let cc = rt.block_on(limiter.client_count());
        if cc != tracked.len() {
            out.inconclusive(&format!("tracked-set model out of sync with client_count(): model {} real {}", tracked.len(), cc));
            break;
        }
    }
    for ep in episodes.iter_mut() {
        if let Some(ep) = ep.take() {
            close_episode(ep, out, c);
        }
    }
    if want_sample {
        let upto = obs.len().saturating_sub(1).min(14);
        out.sample(case_json(c, &obs, upto));
    }
}

fn main() {
    let args = Args::parse();
    install_quiet_panic_hook();
    watchdog("C30", args.pick(300, 3600));
    let mut rep = Report::new("C30", "exploration", &args);
    rep.rule = "directed lane: every (rate in {0,1,2,3,10,50}) x (burst in {0,1,2,5,20}) x (capacity 1,2) with hammer / one-period / idle gap patterns over 2-3 clients; random lane: request sequences of <=200 requests, rates 0..=50, bursts 0..=20, capacity 1..=4, up to capacity+2 interleaved IPs, gaps 0 / ms / k token periods (+-1 ms) / 0-3 s / long idles. A client episode is non-trivial when it contains >=1 rejection and more admissions than the burst (so at least one admission used refilled tokens); distinct by (rate, burst, capacity, the episode's (gap, admitted?) pattern).".into();
    rep.assume("elapsed time seen by the limiter between two calls is at most (harness clock after the later call) - (harness clock before the earlier call); real time enters only as this conservative slack (microseconds against >= 20 ms token periods)");
    rep.assume("'tracked' is modelled from the code's rule: a new IP at capacity evicts the IP with the oldest last request; the model is cross-checked against client_count() after every request");
    rep.assume("rate 0 / burst 0 are accepted configurations: RateLimitConfig::new/with_burst validate nothing");

    let rt = tokio::runtime::Builder::new_current_thread().build().expect("rt");
    let t0 = Instant::now();
    let mut out = Partial::default();
    let mut rng = Rng::new(args.seed).fork(30);

    // ---------------- directed lane ----------------
    for &rate in &[0u32, 1, 2, 3, 10, 50] {
        for &burst in &[0u32, 1, 2, 5, 20] {
            for cap in 1..=2usize {
                for pat in 0..4 {
                    let period = if rate > 0 { 1_000_000_000u64 / rate as u64 } else { 500_000_000 };
                    let n = (burst as usize + 6).min(40);
                    let mut reqs = vec![];
                    for i in 0..(3 * n) {
                        let gap = match pat {
                            0 => 0,
                            1 => if i % (burst as usize + 2) == 0 { period } else { 0 },
                            2 => if i % 3 == 0 { period / 2 } else { 0 },
                            _ => if i == n { 3_600_000_000_000 } else if i % 2 == 0 { period + 1_000_000 } else { 0 },
                        };
                        let client = if pat == 3 { i % 3 } else if i % 5 == 4 { 1 } else { 0 };
                        reqs.push((gap, client));
                    }
                    let c = Case { rate, burst, cap, reqs };
                    run_case(&c, &rt, t0, &mut out, false);
                }
            }
        }
    }
    out.add("directed_cases", out.evaluations);

    // ---------------- random lane ----------------
    let ncases = args.pick(25_000usize, 500_000usize);
    for k in 0..ncases {
        let c = gen_case(&mut rng, 200);
        let want = k < 40 && c.rate > 0 && c.reqs.len() > 10 && out.samples.len() < 3;
        run_case(&c, &rt, t0, &mut out, want);
    }
    rep.set("virtual_seconds_advanced", json!(clock_offset().as_secs()));
    rep.merge(out);
    std::process::exit(rep.finish());
}
