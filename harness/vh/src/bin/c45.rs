//! C45 — a resilient sink never loses an event and its breaker follows its contract.
//!
//! Monitor: the real `ResilientSink` over the real `SinkConnectorAdapter` (the production
//! wrapper of `sink_factory`) around a scripted mock `SinkConnector`, a real `CircuitBreaker`
//! and a real file `DeadLetterQueue`, under the H8 virtual clock of the runtime crate
//! (process-global => the whole workload is single-threaded on a current-thread runtime).
//!
//! Lanes
//!  * seq: every outcome sequence of length <= L (quick 8, thorough 10) x thresholds 1..=4 x
//!    {send, send_batch} x 4 time policies (never advance / full reset timeout before every
//!    call / 0.4 timeout before every call / mixed), plus random sequences up to length 12
//!    (random advances, batch sizes 1..=3, partially failing batches).
//!  * conc: breaker driven open, virtual time advanced past the timeout, a probe call is
//!    started and BLOCKS inside the mock's `send` (tokio Semaphore) so that it is genuinely in
//!    flight; 1-2 more callers start meanwhile; the probe is released with success/failure;
//!    a follow-up call. Also 3 concurrent callers while closed (conservation only).
//!
//!  * late: the downstream is a plain `Sink` (the production adapter serialises calls, which makes
//!    overlapping admitted calls impossible): callers admitted while closed complete after the
//!    breaker has opened.
//!
//! Oracle
//!  * conservation: every uid handed over is, at the end, delivered (mock recorded a success)
//!    or in the DLQ file, not neither (`lost`) and - when batches fail atomically - not both
//!    (`duplicated`); every DLQ line is valid JSON whose `connector` is the sink name, whose
//!    `error` is a non-empty string (containing the scripted error text when the downstream
//!    failed) and whose `event` carries a handed-over uid.
//!  * breaker automaton (own model: closed(consecutive failures) / open(since)): a call is
//!    admitted (reaches the mock) iff closed, or open and virtual elapsed >= reset timeout
//!    (then it is the probe); opens at exactly `threshold` consecutive failures; probe success
//!    closes, probe failure reopens; `state()` after each sequential call agrees; while a
//!    probe is in flight no other caller reaches the downstream.
//!
//! Signature = (lane seq|conc, api send|batch, clause).
use async_trait::async_trait;
use serde_json::{json, Value as J};
use std::collections::{BTreeMap, BTreeSet};
use std::sync::atomic::{AtomicBool, Ordering};
use std::sync::{Arc, Mutex};
use std::time::{Duration, Instant};
use tokio::sync::Semaphore;
use varpulis_runtime::circuit_breaker::{CircuitBreaker, CircuitBreakerConfig, State};
use varpulis_runtime::connector::{ConnectorError, SinkConnector};
use varpulis_runtime::dead_letter::DeadLetterQueue;
use varpulis_runtime::engine::SinkConnectorAdapter;
use varpulis_runtime::event::Event;
use varpulis_runtime::sink::{ResilientSink, Sink};
use varpulis_runtime::verif::clock_advance;
use vh::*;

const SINK_NAME: &str = "mock-downstream";
const FAIL_TEXT: &str = "scripted-failure";
/// reset timeout in virtual seconds; advances are 0, 0.4 R or R so that real time (microseconds)
/// can never move a decision across the boundary
const R_SECS: u64 = 1000;

// ---------------------------------------------------------------------------
// scripted downstream
// ---------------------------------------------------------------------------
#[derive(Default)]
struct MockState {
    fail_uids: BTreeSet<i64>,
    block_uids: BTreeSet<i64>,
    /// uids in the order they entered `send`
    entered: Vec<i64>,
    /// (uid, success) in the order the outcomes were produced
    attempts: Vec<(i64, bool)>,
}

struct Mock {
    st: Arc<Mutex<MockState>>,
    gate: Arc<Semaphore>,
    gated: Arc<AtomicBool>,
}

#[async_trait]
impl SinkConnector for Mock {
    fn name(&self) -> &str {
        SINK_NAME
    }
    async fn send(&self, event: &Event) -> Result<(), ConnectorError> {
        let uid = event.get_int("uid").unwrap_or(-1);
        let block = {
            let mut s = self.st.lock().unwrap();
            s.entered.push(uid);
            self.gated.load(Ordering::SeqCst) && s.block_uids.contains(&uid)
        };
        if block {
            if let Ok(p) = self.gate.acquire().await {
                p.forget();
            }
        }
        let mut s = self.st.lock().unwrap();
        let ok = !s.fail_uids.contains(&uid);
        s.attempts.push((uid, ok));
        if ok {
            Ok(())
        } else {
            Err(ConnectorError::SendFailed(format!("{} uid={}", FAIL_TEXT, uid)))
        }
    }
    async fn flush(&self) -> Result<(), ConnectorError> {
        Ok(())
    }
    async fn close(&self) -> Result<(), ConnectorError> {
        Ok(())
    }
}

/// The same scripted downstream as a plain `Sink` (no adapter mutex): several admitted callers
/// are inside `send` at the same time.
struct DirectMock(Mock);

#[async_trait]
impl Sink for DirectMock {
    fn name(&self) -> &str {
        SINK_NAME
    }
    async fn send(&self, event: &Event) -> anyhow::Result<()> {
        SinkConnector::send(&self.0, event).await.map_err(|e| anyhow::anyhow!("{}", e))
    }
    async fn flush(&self) -> anyhow::Result<()> {
        Ok(())
    }
    async fn close(&self) -> anyhow::Result<()> {
        Ok(())
    }
}

struct Rig {
    rs: Arc<ResilientSink>,
    cb: Arc<CircuitBreaker>,
    st: Arc<Mutex<MockState>>,
    gate: Arc<Semaphore>,
    gated: Arc<AtomicBool>,
    dlq_path: std::path::PathBuf,
    handed: Vec<i64>,
    next_uid: i64,
}

fn rig(dir: &std::path::Path, run_no: u64, threshold: u32) -> Rig {
    rig_with(dir, run_no, threshold, false)
}

/// `direct`: the downstream is a plain `Sink` instead of the serialising production adapter.
fn rig_with(dir: &std::path::Path, run_no: u64, threshold: u32, direct: bool) -> Rig {
    let st = Arc::new(Mutex::new(MockState::default()));
    let gate = Arc::new(Semaphore::new(0));
    let gated = Arc::new(AtomicBool::new(false));
    let mock = Mock { st: st.clone(), gate: gate.clone(), gated: gated.clone() };
    let adapter: Arc<dyn Sink> = if direct { Arc::new(DirectMock(mock)) } else { Arc::new(SinkConnectorAdapter::new(SINK_NAME, Box::new(mock))) };
    let cb = Arc::new(CircuitBreaker::new(CircuitBreakerConfig {
        failure_threshold: threshold,
        reset_timeout: Duration::from_secs(R_SECS),
    }));
    let dlq_path = dir.join(format!("dlq-{}.jsonl", run_no));
    let _ = std::fs::remove_file(&dlq_path);
    let dlq = Arc::new(DeadLetterQueue::open(&dlq_path).expect("open dlq"));
    let rs = Arc::new(ResilientSink::new(adapter, cb.clone(), Some(dlq)));
    Rig { rs, cb, st, gate, gated, dlq_path, handed: vec![], next_uid: 1 }
}

impl Rig {
    fn new_events(&mut self, n: usize) -> Vec<Arc<Event>> {
        let mut v = vec![];
        for _ in 0..n {
            let uid = self.next_uid;
            self.next_uid += 1;
            self.handed.push(uid);
            v.push(Arc::new(Event::new(format!("E{}", uid)).with_field("uid", uid)));
        }
        v
    }
    fn entered_len(&self) -> usize {
        self.st.lock().unwrap().entered.len()
    }
    fn entered(&self, uid: i64) -> bool {
        self.st.lock().unwrap().entered.contains(&uid)
    }
}

// ---------------------------------------------------------------------------
// reference automaton
// ---------------------------------------------------------------------------
#[derive(Clone, Copy, Debug, PartialEq)]
enum M {
    Closed { consec: u32 },
    Open { since: u64 },
}

fn m_name(m: &M) -> &'static str {
    match m {
        M::Closed { .. } => "closed",
        M::Open { .. } => "open",
    }
}

/// (admit?, is_probe?)
fn m_decide(m: &M, t: u64) -> (bool, bool) {
    match m {
        M::Closed { .. } => (true, false),
        M::Open { since } => {
            if t - since >= R_SECS {
                (true, true)
            } else {
                (false, false)
            }
        }
    }
}

fn m_update(m: &mut M, probe: bool, ok: bool, t: u64, thr: u32) {
    if probe {
        *m = if ok { M::Closed { consec: 0 } } else { M::Open { since: t } };
        return;
    }
    if let M::Closed { consec } = m {
        if ok {
            *consec = 0;
        } else {
            *consec += 1;
            if *consec >= thr {
                *m = M::Open { since: t };
            }
        }
    }
}

fn state_name(s: State) -> &'static str {
    match s {
        State::Closed => "closed",
        State::Open => "open",
        State::HalfOpen => "half-open",
    }
}

// ---------------------------------------------------------------------------
// conservation + DLQ format
// ---------------------------------------------------------------------------
/// `atomic`: no call of this run could deliver a prefix of a batch and then fail.
fn check_conservation(rg: &Rig, lane: &str, api: &str, atomic: bool, desc: &J, out: &mut Partial) {
    let text = std::fs::read_to_string(&rg.dlq_path).unwrap_or_default();
    let (delivered, failed): (BTreeSet<i64>, BTreeSet<i64>) = {
        let s = rg.st.lock().unwrap();
        (
            s.attempts.iter().filter(|a| a.1).map(|a| a.0).collect(),
            s.attempts.iter().filter(|a| !a.1).map(|a| a.0).collect(),
        )
    };
    let mut dlq: BTreeMap<i64, usize> = BTreeMap::new();
    let handed: BTreeSet<i64> = rg.handed.iter().copied().collect();
    for (ln, line) in text.lines().enumerate() {
        out.add("dlq_lines_checked", 1);
        let w = |what: &str| json!({"scenario": desc, "dlq_line_number": ln + 1, "dlq_line": line, "problem": what});
        let v: J = match serde_json::from_str(line) {
            Ok(v) => v,
            Err(e) => {
                out.violation(&format!("{}/{}/dlq-not-json", lane, api), "a dead-letter line is not valid JSON", w(&e.to_string()));
                continue;
            }
        };
        if v.get("connector").and_then(|c| c.as_str()) != Some(SINK_NAME) {
            out.violation(&format!("{}/{}/dlq-sink-not-named", lane, api), "a dead-letter entry does not name the sink", w("connector field"));
        }
        let err = v.get("error").and_then(|c| c.as_str()).unwrap_or("");
        let uid = v
            .pointer("/event/data/uid")
            .and_then(|u| u.as_i64())
            .or_else(|| v.pointer("/event/event_type").and_then(|t| t.as_str()).and_then(|t| t.trim_start_matches('E').parse().ok()));
        let uid = match uid {
            Some(u) if handed.contains(&u) => u,
            _ => {
                out.violation(&format!("{}/{}/dlq-event-unreadable", lane, api), "a dead-letter entry does not carry a handed-over event", w("event field"));
                continue;
            }
        };
        if err.is_empty() {
            out.violation(&format!("{}/{}/dlq-error-missing", lane, api), "a dead-letter entry does not name the error", w("error field empty"));
        } else if failed.contains(&uid) && !err.contains(FAIL_TEXT) {
            out.violation(&format!("{}/{}/dlq-error-wrong", lane, api), "a dead-letter entry of a downstream failure does not carry the downstream error", w("error text"));
        }
        *dlq.entry(uid).or_insert(0) += 1;
    }
    for uid in &rg.handed {
        out.add("uids_accounted", 1);
        let d = delivered.contains(uid);
        let q = dlq.get(uid).copied().unwrap_or(0);
        if !d && q == 0 {
            out.violation(&format!("{}/{}/lost", lane, api), "an event handed to the resilient sink is neither delivered nor dead-lettered",
                json!({"scenario": desc, "uid": uid, "delivered": delivered, "dlq_uids": dlq}));
        } else if (d && q > 0) || q > 1 {
            if atomic {
                out.violation(&format!("{}/{}/duplicated", lane, api), "an event is both delivered and dead-lettered (or dead-lettered twice)",
                    json!({"scenario": desc, "uid": uid, "delivered": delivered, "dlq_uids": dlq}));
            } else {
                out.add("partial_batch_events_delivered_and_dead_lettered", 1);
            }
        }
    }
}

// ---------------------------------------------------------------------------
// sequential lane
// ---------------------------------------------------------------------------
#[derive(Clone, Debug, Hash)]
struct Step {
    /// virtual seconds advanced before the call
    adv: u64,
    /// batch size (1 for `send`)
    size: usize,
    /// None: downstream succeeds; Some(p): downstream fails at the p-th event of the call
    fail_at: Option<usize>,
}

#[derive(Clone, Debug, Hash)]
struct SeqCase {
    thr: u32,
    batch: bool,
    steps: Vec<Step>,
}

fn seq_json(c: &SeqCase) -> J {
    json!({"failure_threshold": c.thr, "reset_timeout_s": R_SECS, "api": if c.batch { "send_batch" } else { "send" },
        "calls": c.steps.iter().map(|s| json!({"advance_virtual_s_before": s.adv, "events": s.size,
            "downstream": match s.fail_at { None => "ok".to_string(), Some(p) => format!("fails at event {}", p) }})).collect::<Vec<_>>(),
        "replay": "ResilientSink::new(SinkConnectorAdapter(mock), CircuitBreaker{threshold, 1000 s}, DeadLetterQueue file); per call: varpulis_runtime::verif::clock_advance, then send / send_batch"})
}

async fn run_seq(c: &SeqCase, dir: &std::path::Path, run_no: u64, out: &mut Partial) {
    let mut rg = rig(dir, run_no, c.thr);
    let api = if c.batch { "batch" } else { "send" };
    let mut m = M::Closed { consec: 0 };
    let mut t: u64 = 0;
    let real0 = Instant::now();
    let atomic = c.steps.iter().all(|s| s.fail_at.map(|p| p == 0).unwrap_or(true));
    let mut probes_done = 0u32;
    let mut log: Vec<J> = vec![];
    let mut diverged = false;
    out.eval();
    for (i, s) in c.steps.iter().enumerate() {
        if s.adv > 0 {
            clock_advance(Duration::from_secs(s.adv));
            t += s.adv;
        }
        let evs = rg.new_events(s.size);
        if let Some(p) = s.fail_at {
            let uid = evs[p.min(evs.len() - 1)].get_int("uid").unwrap();
            rg.st.lock().unwrap().fail_uids.insert(uid);
        }
        let before = rg.entered_len();
        let ok = if c.batch { rg.rs.send_batch(&evs).await.is_ok() } else { rg.rs.send(&evs[0]).await.is_ok() };
        let reached = rg.entered_len() > before;
        let (exp_admit, probe) = m_decide(&m, t);
        out.add("calls_judged", 1);
        log.push(json!({"call": i, "virtual_t_s": t, "model_before": m_name(&m), "expected_admitted": exp_admit, "reached_downstream": reached, "returned_ok": ok}));
        if reached != exp_admit {
            let clause = match (&m, exp_admit) {
                (M::Closed { .. }, _) => "rejected-while-closed",
                (M::Open { .. }, true) => "rejected-after-reset-timeout",
                (M::Open { since }, false) => {
                    if *since == t && i > 0 { "admitted-right-after-threshold" } else { "admitted-while-open" }
                }
            };
            out.violation(&format!("seq/{}/{}", api, clause), "breaker admission differs from the contract",
                json!({"scenario": seq_json(c), "observed_calls": log}));
            diverged = true;
            break;
        }
        if exp_admit {
            let down_ok = s.fail_at.is_none();
            if ok != down_ok {
                out.violation(&format!("seq/{}/result-differs-from-downstream", api), "the wrapper's result differs from the downstream outcome",
                    json!({"scenario": seq_json(c), "observed_calls": log}));
            }
            m_update(&mut m, probe, down_ok, t, c.thr);
            if probe {
                probes_done += 1;
            }
        } else if ok {
            out.violation(&format!("seq/{}/rejected-call-returned-ok", api), "a call rejected by the breaker returned Ok",
                json!({"scenario": seq_json(c), "observed_calls": log}));
        }
        let real_state = rg.cb.state();
        if state_name(real_state) != m_name(&m) {
            let clause = match (&m, real_state) {
                (M::Open { .. }, State::Closed) => "not-open-after-threshold-or-failed-probe",
                (M::Closed { .. }, State::Open) => "open-too-early-or-not-closed-after-probe",
                _ => "state-half-open-at-rest",
            };
            log.push(json!({"state()": state_name(real_state), "model": m_name(&m)}));
            out.violation(&format!("seq/{}/{}", api, clause), "breaker state() after a call differs from the contract",
                json!({"scenario": seq_json(c), "observed_calls": log}));
            diverged = true;
            break;
        }
    }
    if real0.elapsed() > Duration::from_secs(100) {
        out.inconclusive("a sequential run took more than 100 s of real time; virtual-time margins no longer trustworthy");
    }
    let _ = diverged;
    check_conservation(&rg, "seq", api, atomic, &seq_json(c), out);
    if probes_done > 0 {
        out.nontrivial(c);
        out.add("seq_cases_with_probe", 1);
    }
    if out.samples.is_empty() && probes_done > 0 && c.steps.len() >= 4 {
        out.sample(json!({"lane": "seq", "scenario": seq_json(c), "observed_calls": log}));
    }
    let _ = std::fs::remove_file(&rg.dlq_path);
}

// ---------------------------------------------------------------------------
// concurrent lane
// ---------------------------------------------------------------------------
#[derive(Clone, Debug, Hash)]
struct ConcCase {
    thr: u32,
    batch: bool,
    /// number of callers started while the probe is in flight (1..=2)
    extra: usize,
    probe_ok: bool,
    /// downstream outcome for an extra caller should it get through
    extra_ok: Vec<bool>,
    /// advance a full reset timeout before the follow-up call
    follow_after_timeout: bool,
}

fn conc_json(c: &ConcCase) -> J {
    json!({"failure_threshold": c.thr, "reset_timeout_s": R_SECS, "api": if c.batch { "send_batch (2 events)" } else { "send" },
        "script": [
            format!("{} sequential failing calls (breaker opens)", c.thr),
            format!("clock_advance({} s)", R_SECS),
            "caller P (probe) starts; the mock blocks inside send".to_string(),
            format!("{} more caller(s) start while P is in flight", c.extra),
            format!("P is released: downstream {}", if c.probe_ok { "ok" } else { "fails" }),
            format!("follow-up call{}", if c.follow_after_timeout { " after another full reset timeout" } else { " immediately" }),
        ],
        "downstream_for_extra_callers_if_they_get_through": c.extra_ok})
}

async fn settle() {
    for _ in 0..40 {
        tokio::task::yield_now().await;
    }
}

async fn run_conc(c: &ConcCase, dir: &std::path::Path, run_no: u64, out: &mut Partial) {
    let mut rg = rig(dir, run_no, c.thr);
    let api = if c.batch { "batch" } else { "send" };
    let size = if c.batch { 2 } else { 1 };
    out.eval();
    // phase 1: open the breaker
    for _ in 0..c.thr {
        let evs = rg.new_events(size);
        rg.st.lock().unwrap().fail_uids.insert(evs[0].get_int("uid").unwrap());
        let _ = if c.batch { rg.rs.send_batch(&evs).await.is_ok() } else { rg.rs.send(&evs[0]).await.is_ok() };
    }
    if rg.cb.state() != State::Open {
        out.add("conc_precondition_not_open", 1);
        check_conservation(&rg, "conc", api, true, &conc_json(c), out);
        return;
    }
    clock_advance(Duration::from_secs(R_SECS));
    rg.gated.store(true, Ordering::SeqCst);
    let spawn_call = |rg: &mut Rig, ok: bool| {
        let evs = rg.new_events(size);
        let first = evs[0].get_int("uid").unwrap();
        {
            let mut s = rg.st.lock().unwrap();
            s.block_uids.insert(first);
            if !ok {
                s.fail_uids.insert(first);
            }
        }
        let rs = rg.rs.clone();
        let batch = c.batch;
        let h = tokio::spawn(async move {
            if batch {
                rs.send_batch(&evs).await.is_ok()
            } else {
                rs.send(&evs[0]).await.is_ok()
            }
        });
        (first, h)
    };
    let (p_uid, p_handle) = spawn_call(&mut rg, c.probe_ok);
    settle().await;
    if !rg.entered(p_uid) || p_handle.is_finished() {
        // covered (and judged) by the sequential lane; here only a precondition
        out.add("conc_probe_not_in_flight", 1);
        rg.gated.store(false, Ordering::SeqCst);
        rg.gate.add_permits(64);
        settle().await;
        check_conservation(&rg, "conc", api, true, &conc_json(c), out);
        return;
    }
    out.add("probes_genuinely_in_flight", 1);
    let mut extras = vec![];
    for k in 0..c.extra {
        extras.push(spawn_call(&mut rg, c.extra_ok[k]));
    }
    settle().await;
    let finished_while_in_flight: Vec<bool> = extras.iter().map(|e| e.1.is_finished()).collect();
    // release the probe only
    rg.gate.add_permits(1);
    settle().await;
    let probe_finished = p_handle.is_finished();
    // release everything that may have slipped through
    rg.gated.store(false, Ordering::SeqCst);
    rg.gate.add_permits(64);
    settle().await;
    let mut all_done = probe_finished || p_handle.is_finished();
    let p_ok = p_handle.await.unwrap_or(false);
    let mut extra_reached = vec![];
    for (uid, h) in extras {
        if !h.is_finished() {
            all_done = false;
            h.abort();
        } else {
            let _ = h.await;
        }
        extra_reached.push(rg.entered(uid));
    }
    if !all_done {
        out.inconclusive("concurrent callers did not finish after release");
        return;
    }
    let observed = json!({"probe_returned_ok": p_ok, "extra_callers_finished_while_probe_in_flight": finished_while_in_flight,
        "extra_callers_reached_downstream": extra_reached, "downstream_entered_order_uids": rg.st.lock().unwrap().entered.clone()});
    let mut violated = false;
    if extra_reached.iter().any(|r| *r) {
        violated = true;
        out.violation(&format!("conc/{}/halfopen-extra-caller-admitted", api),
            "while half-open with the probe still in flight, another caller was let through to the downstream",
            json!({"scenario": conc_json(c), "observed": observed}));
    }
    if p_ok != c.probe_ok {
        out.violation(&format!("conc/{}/result-differs-from-downstream", api), "the probe's result differs from the downstream outcome",
            json!({"scenario": conc_json(c), "observed": observed}));
    }
    // follow-up call, judged only when the run followed the contract so far
    if !violated {
        let st = rg.cb.state();
        let exp = if c.probe_ok { State::Closed } else { State::Open };
        if st != exp {
            violated = true;
            out.violation(&format!("conc/{}/{}", api, if c.probe_ok { "not-closed-after-probe-success" } else { "not-reopened-after-probe-failure" }),
                "breaker state after the probe completed differs from the contract",
                json!({"scenario": conc_json(c), "observed": observed, "state()": state_name(st)}));
        }
    }
    if !violated {
        if c.follow_after_timeout {
            clock_advance(Duration::from_secs(R_SECS));
        }
        let evs = rg.new_events(size);
        let before = rg.entered_len();
        let _ = if c.batch { rg.rs.send_batch(&evs).await.is_ok() } else { rg.rs.send(&evs[0]).await.is_ok() };
        let reached = rg.entered_len() > before;
        let exp_admit = c.probe_ok || c.follow_after_timeout;
        if reached != exp_admit {
            let clause = if c.probe_ok {
                "follow-up-rejected-after-probe-success"
            } else if c.follow_after_timeout {
                "rejected-after-reset-timeout"
            } else {
                "follow-up-admitted-after-probe-failure"
            };
            out.violation(&format!("conc/{}/{}", api, clause), "follow-up call after the probe differs from the contract",
                json!({"scenario": conc_json(c), "observed": observed, "follow_up_reached_downstream": reached}));
        }
    }
    check_conservation(&rg, "conc", api, true, &conc_json(c), out);
    out.nontrivial(c);
    if out.samples.len() < 2 && c.extra == 2 {
        out.sample(json!({"lane": "conc", "scenario": conc_json(c), "observed": observed}));
    }
    let _ = std::fs::remove_file(&rg.dlq_path);
}

/// A call admitted while the breaker was closed completes only after other callers have opened it.
/// The breaker has to stay open: "rejects requests until the reset timeout has passed".
async fn run_late(thr: u32, batch: bool, late: usize, late_ok: &[bool], dir: &std::path::Path, run_no: u64, out: &mut Partial) {
    let mut rg = rig_with(dir, run_no, thr, true);
    let api = if batch { "batch" } else { "send" };
    let size = if batch { 2 } else { 1 };
    out.eval();
    let desc = json!({"failure_threshold": thr, "reset_timeout_s": R_SECS, "api": api, "downstream": "plain Sink (calls are not serialised)",
        "script": [format!("{} caller(s) start while closed and block inside the downstream", late), format!("{} sequential failing calls (breaker opens)", thr),
            format!("the blocked calls are released one by one: {:?} (true = downstream ok)", late_ok), "follow-up call immediately", format!("clock_advance({} s), follow-up call", R_SECS)]});
    rg.gated.store(true, Ordering::SeqCst);
    let mut hs = vec![];
    for k in 0..late {
        let evs = rg.new_events(size);
        let first = evs[0].get_int("uid").unwrap();
        {
            let mut s = rg.st.lock().unwrap();
            s.block_uids.insert(first);
            if !late_ok[k] {
                s.fail_uids.insert(first);
            }
        }
        let rs = rg.rs.clone();
        hs.push((first, tokio::spawn(async move { if batch { rs.send_batch(&evs).await.is_ok() } else { rs.send(&evs[0]).await.is_ok() } })));
        settle().await;
    }
    if hs.iter().any(|(u, h)| !rg.entered(*u) || h.is_finished()) {
        out.add("late_callers_not_in_flight", 1);
        rg.gated.store(false, Ordering::SeqCst);
        rg.gate.add_permits(64);
        settle().await;
        return;
    }
    for _ in 0..thr {
        let evs = rg.new_events(size);
        rg.st.lock().unwrap().fail_uids.insert(evs[0].get_int("uid").unwrap());
        let _ = if batch { rg.rs.send_batch(&evs).await.is_ok() } else { rg.rs.send(&evs[0]).await.is_ok() };
    }
    if rg.cb.state() != State::Open {
        out.violation(&format!("late/{}/not-open-after-threshold-failures", api), "the breaker is not open after `threshold` consecutive failures reported while other calls are in flight",
            json!({"scenario": desc, "state()": state_name(rg.cb.state())}));
        rg.gated.store(false, Ordering::SeqCst);
        rg.gate.add_permits(64);
        settle().await;
        return;
    }
    let mut states = vec![];
    for _ in 0..late {
        rg.gate.add_permits(1);
        settle().await;
        states.push(state_name(rg.cb.state()));
    }
    rg.gated.store(false, Ordering::SeqCst);
    for (_, h) in hs {
        if !h.is_finished() {
            h.abort();
            out.inconclusive("late callers did not finish after release");
            return;
        }
        let _ = h.await;
    }
    out.add("late_completions_while_open", late as u64);
    let evs = rg.new_events(size);
    let before = rg.entered_len();
    let _ = if batch { rg.rs.send_batch(&evs).await.is_ok() } else { rg.rs.send(&evs[0]).await.is_ok() };
    let reached = rg.entered_len() > before;
    let observed = json!({"state()_after_each_release": states, "follow_up_reached_downstream": reached});
    if states.iter().any(|s| *s != "open") || reached {
        out.violation(&format!("late/{}/open-period-cut-short-by-late-{}", api, if late_ok.iter().all(|o| *o) { "success" } else if late_ok.iter().any(|o| *o) { "mixed" } else { "failure" }),
            "a call admitted before the breaker opened completed while it was open, and the breaker then admitted a request (or left the open state) before the reset timeout had passed",
            json!({"scenario": desc, "observed": observed}));
    } else {
        clock_advance(Duration::from_secs(R_SECS));
        let evs = rg.new_events(size);
        let before = rg.entered_len();
        let _ = if batch { rg.rs.send_batch(&evs).await.is_ok() } else { rg.rs.send(&evs[0]).await.is_ok() };
        if rg.entered_len() == before {
            out.violation(&format!("late/{}/rejected-after-reset-timeout", api), "a full reset timeout after the last reported failure the breaker still rejects",
                json!({"scenario": desc, "observed": observed}));
        }
    }
    check_conservation(&rg, "late", api, true, &desc, out);
    out.nontrivial(&(thr, batch, late, late_ok.to_vec(), 77u8));
    let _ = std::fs::remove_file(&rg.dlq_path);
}

/// three callers in flight while the breaker is closed: conservation only
async fn run_conc_closed(thr: u32, batch: bool, outcomes: [bool; 3], dir: &std::path::Path, run_no: u64, out: &mut Partial) {
    let mut rg = rig(dir, run_no, thr);
    let api = if batch { "batch" } else { "send" };
    let size = if batch { 2 } else { 1 };
    out.eval();
    rg.gated.store(true, Ordering::SeqCst);
    let mut hs = vec![];
    for ok in outcomes {
        let evs = rg.new_events(size);
        let first = evs[0].get_int("uid").unwrap();
        {
            let mut s = rg.st.lock().unwrap();
            s.block_uids.insert(first);
            if !ok {
                s.fail_uids.insert(first);
            }
        }
        let rs = rg.rs.clone();
        hs.push(tokio::spawn(async move {
            if batch {
                rs.send_batch(&evs).await.is_ok()
            } else {
                rs.send(&evs[0]).await.is_ok()
            }
        }));
        settle().await;
    }
    for _ in 0..3 {
        rg.gate.add_permits(1);
        settle().await;
    }
    rg.gated.store(false, Ordering::SeqCst);
    rg.gate.add_permits(64);
    settle().await;
    for h in hs {
        if !h.is_finished() {
            h.abort();
            out.inconclusive("closed-state concurrent callers did not finish after release");
            return;
        }
        let _ = h.await;
    }
    let desc = json!({"failure_threshold": thr, "api": api, "three_callers_in_flight_while_closed_downstream_outcomes": outcomes});
    check_conservation(&rg, "conc", api, true, &desc, out);
    out.add("closed_concurrent_cases", 1);
    let _ = std::fs::remove_file(&rg.dlq_path);
}

/// up to 3 callers in flight in arbitrary breaker states, random starts / releases / clock
/// advances: conservation and DLQ format only (the automaton is judged in the other lanes)
async fn run_conc_random(thr: u32, script: &[(u8, bool, usize)], dir: &std::path::Path, run_no: u64, out: &mut Partial) {
    let mut rg = rig(dir, run_no, thr);
    out.eval();
    rg.gated.store(true, Ordering::SeqCst);
    let mut hs: Vec<tokio::task::JoinHandle<bool>> = vec![];
    let mut any_batch = false;
    for &(action, ok, size) in script {
        match action {
            0 => {
                hs.retain(|h| !h.is_finished());
                if hs.len() < 3 {
                    let evs = rg.new_events(size);
                    let first = evs[0].get_int("uid").unwrap();
                    {
                        let mut s = rg.st.lock().unwrap();
                        s.block_uids.insert(first);
                        if !ok {
                            s.fail_uids.insert(first);
                        }
                    }
                    let rs = rg.rs.clone();
                    let batch = size > 1;
                    any_batch |= batch;
                    hs.push(tokio::spawn(async move {
                        if batch {
                            rs.send_batch(&evs).await.is_ok()
                        } else {
                            rs.send(&evs[0]).await.is_ok()
                        }
                    }));
                }
            }
            1 => rg.gate.add_permits(1),
            2 => clock_advance(Duration::from_secs(R_SECS * 2 / 5)),
            _ => clock_advance(Duration::from_secs(R_SECS)),
        }
        settle().await;
    }
    rg.gated.store(false, Ordering::SeqCst);
    rg.gate.add_permits(256);
    settle().await;
    settle().await;
    for h in hs {
        if !h.is_finished() {
            h.abort();
            out.inconclusive("random concurrent callers did not finish after release");
            return;
        }
        let _ = h.await;
    }
    let desc = json!({"failure_threshold": thr, "reset_timeout_s": R_SECS,
        "script": script.iter().map(|(a, ok, size)| match a {
            0 => format!("start a caller ({} event(s), downstream {}) - blocks inside the mock until released; skipped when 3 are in flight", size, if *ok { "ok" } else { "fails" }),
            1 => "release one blocked downstream call".to_string(),
            2 => format!("clock_advance({} s)", R_SECS * 2 / 5),
            _ => format!("clock_advance({} s)", R_SECS),
        }).collect::<Vec<_>>()});
    check_conservation(&rg, "conc", if any_batch { "batch" } else { "send" }, true, &desc, out);
    out.add("random_concurrent_cases", 1);
    let _ = std::fs::remove_file(&rg.dlq_path);
}

fn main() {
    let args = Args::parse();
    install_quiet_panic_hook();
    watchdog("C45", args.pick(300, 3600));
    let mut rep = Report::new("C45", "exploration", &args);
    rep.rule = "seq lane: ALL downstream outcome sequences of length <= L (quick 8, thorough 10) x thresholds 1..=4 x {send, send_batch(2, atomic)} x 4 virtual-time policies, plus random sequences of length 7..=12 (random advances from {0, 0.4 R, R}, batch sizes 1..=3, batches failing at a random event); conc lane: thresholds 1..=4 x {send, batch} x 1-2 extra callers started while the probe blocks inside the downstream x probe outcome x extra outcomes x follow-up timing, plus 3 callers in flight while closed, plus random schedules of up to 3 in-flight callers / releases / clock advances (conservation only); late lane: over a plain Sink (no adapter mutex) 1-2 callers admitted while closed stay blocked in the downstream while `threshold` failing calls open the breaker, then complete (every ok/fail combination): the breaker must stay open and reject until the reset timeout has passed. Non-trivial = the run contains open -> half-open (a probe admitted) -> close or reopen; distinct by the whole case.".into();
    rep.assume("virtual advances are 0, 0.4 R or R with R = 1000 s, so real time (checked < 100 s per run) cannot move an elapsed-time decision across the reset timeout");
    rep.assume("'delivered' = the scripted downstream recorded a success for that uid; downstream outcomes are attached to calls (a call that the breaker rejects consumes none)");
    rep.assume("the mock is wrapped in the production SinkConnectorAdapter (the Sink trait's error type is not nameable from the harness crate); the adapter serialises downstream calls, so an extra caller that passed the breaker reaches the mock after the probe is released - reaching the mock at all is the observation");

    let dirguard = tempfile::Builder::new().prefix("vh-c45-").tempdir().expect("tempdir");
    let dir = dirguard.path().to_path_buf();
    let rt = tokio::runtime::Builder::new_current_thread().enable_all().build().expect("rt");
    let mut out = Partial::default();
    let mut rng = Rng::new(args.seed).fork(45);
    let mut run_no = 0u64;
    let max_len = args.pick(8usize, 10usize);

    // ---------------- seq: exhaustive ----------------
    for len in 1..=max_len {
        for bits in 0u32..(1 << len) {
            for thr in 1..=4u32 {
                for batch in [false, true] {
                    for policy in 0..4u32 {
                        let mut steps = vec![];
                        let mut h = (bits as u64) ^ ((len as u64) << 20) ^ ((thr as u64) << 28) ^ 0x5DEECE66D;
                        for i in 0..len {
                            let ok = (bits >> i) & 1 == 1;
                            h = h.wrapping_mul(6364136223846793005).wrapping_add(1442695040888963407);
                            let adv = match policy {
                                0 => 0,
                                1 => R_SECS,
                                2 => R_SECS * 2 / 5,
                                _ => [0, R_SECS * 2 / 5, R_SECS][((h >> 33) % 3) as usize],
                            };
                            steps.push(Step { adv, size: if batch { 2 } else { 1 }, fail_at: if ok { None } else { Some(0) } });
                        }
                        let c = SeqCase { thr, batch, steps };
                        run_no += 1;
                        let r = catch(std::panic::AssertUnwindSafe(|| rt.block_on(run_seq(&c, &dir, run_no, &mut out))));
                        if let Err(p) = r {
                            out.violation("seq/panic", "panic in the resilient sink path", json!({"scenario": seq_json(&c), "panic": p, "site": panic_site(&last_panic_location())}));
                        }
                    }
                }
            }
        }
    }
    out.add("seq_exhaustive_cases", out.evaluations);

    // ---------------- seq: random, longer, partial batches ----------------
    let nrand = args.pick(5000usize, 100_000usize);
    for _ in 0..nrand {
        let len = 7 + rng.below(6);
        let thr = 1 + rng.below(4) as u32;
        let batch = rng.chance(1, 2);
        let fail_pct = *rng.pick(&[20u32, 50, 80]);
        let mut steps = vec![];
        for _ in 0..len {
            let size = if batch { 1 + rng.below(3) } else { 1 };
            let fail = rng.chance(fail_pct, 100);
            let adv = *rng.pick(&[0, 0, R_SECS * 2 / 5, R_SECS]);
            steps.push(Step { adv, size, fail_at: if fail { Some(rng.below(size)) } else { None } });
        }
        let c = SeqCase { thr, batch, steps };
        run_no += 1;
        let r = catch(std::panic::AssertUnwindSafe(|| rt.block_on(run_seq(&c, &dir, run_no, &mut out))));
        if let Err(p) = r {
            out.violation("seq/panic", "panic in the resilient sink path", json!({"scenario": seq_json(&c), "panic": p, "site": panic_site(&last_panic_location())}));
        }
    }

    // ---------------- conc ----------------
    for thr in 1..=4u32 {
        for batch in [false, true] {
            for extra in 1..=2usize {
                for probe_ok in [true, false] {
                    for eo in 0..(1u32 << extra) {
                        for follow_after_timeout in [false, true] {
                            let c = ConcCase { thr, batch, extra, probe_ok, extra_ok: (0..extra).map(|k| (eo >> k) & 1 == 1).collect(), follow_after_timeout };
                            run_no += 1;
                            let r = catch(std::panic::AssertUnwindSafe(|| rt.block_on(run_conc(&c, &dir, run_no, &mut out))));
                            if let Err(p) = r {
                                out.violation("conc/panic", "panic in the resilient sink path", json!({"scenario": conc_json(&c), "panic": p, "site": panic_site(&last_panic_location())}));
                            }
                        }
                    }
                }
            }
            for o in 0..8u32 {
                run_no += 1;
                let outcomes = [o & 1 == 1, o & 2 == 2, o & 4 == 4];
                let r = catch(std::panic::AssertUnwindSafe(|| rt.block_on(run_conc_closed(thr, batch, outcomes, &dir, run_no, &mut out))));
                if let Err(p) = r {
                    out.violation("conc/panic", "panic in the resilient sink path", json!({"closed_concurrent": outcomes, "panic": p}));
                }
            }
        }
    }
    // ---------------- late completions while open (plain Sink, genuinely overlapping calls) ----------------
    for thr in 1..=4u32 {
        for batch in [false, true] {
            for late in 1..=2usize {
                for lo in 0..(1u32 << late) {
                    let late_ok: Vec<bool> = (0..late).map(|k| (lo >> k) & 1 == 1).collect();
                    run_no += 1;
                    let r = catch(std::panic::AssertUnwindSafe(|| rt.block_on(run_late(thr, batch, late, &late_ok, &dir, run_no, &mut out))));
                    if let Err(p) = r {
                        out.violation("late/panic", "panic in the resilient sink path", json!({"late": late_ok, "panic": p}));
                    }
                }
            }
        }
    }
    // ---------------- conc: random schedules (conservation only) ----------------
    let nconc = args.pick(400usize, 20_000usize);
    for _ in 0..nconc {
        let thr = 1 + rng.below(4) as u32;
        let n = 8 + rng.below(16);
        let batchy = rng.chance(1, 2);
        let script: Vec<(u8, bool, usize)> = (0..n)
            .map(|_| {
                let a = *rng.pick(&[0u8, 0, 0, 1, 1, 2, 3]);
                (a, rng.chance(1, 2), if batchy { 1 + rng.below(3) } else { 1 })
            })
            .collect();
        run_no += 1;
        let r = catch(std::panic::AssertUnwindSafe(|| rt.block_on(run_conc_random(thr, &script, &dir, run_no, &mut out))));
        if let Err(p) = r {
            out.violation("conc/panic", "panic in the resilient sink path", json!({"random_concurrent_script": format!("{:?}", script), "panic": p}));
        }
    }
    rep.merge(out);
    let code = rep.finish();
    drop(dirguard);
    std::process::exit(code);
}
