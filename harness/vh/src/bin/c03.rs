//! C03 — Kleene closures report every admissible combination, up to the documented caps.
//! Monitor: direct SaseEngine (`Seq[A, KleenePlus(B pred), C]`, also `Seq[A, KleenePlus(B)]`)
//! and the VPL form; per completion: number of results, the kept B's (stack), and through
//! hook H1 the uid set of every enumerated combination; oracle = brute force over subsets.
use serde_json::json;
use std::collections::BTreeSet;
use varpulis_core::Value;
use varpulis_runtime::event::Event;
use varpulis_runtime::sase::{CompareOp, PatternBuilder, Predicate, SaseEngine, SasePattern};
use vh::eng::*;
use vh::*;

#[derive(Clone, Copy, Debug, PartialEq, Eq, Hash)]
enum Pred {
    None,
    ConstGe(i64),
    RefA(Cmp),
    SelfRef(Cmp),
}
#[derive(Clone, Copy, Debug, PartialEq, Eq, Hash)]
enum Cmp {
    Gt,
    Ge,
    Lt,
    Ne,
}
impl Cmp {
    fn op(&self) -> CompareOp {
        match self {
            Cmp::Gt => CompareOp::Gt,
            Cmp::Ge => CompareOp::Ge,
            Cmp::Lt => CompareOp::Lt,
            Cmp::Ne => CompareOp::NotEq,
        }
    }
    fn txt(&self) -> &'static str {
        match self {
            Cmp::Gt => ">",
            Cmp::Ge => ">=",
            Cmp::Lt => "<",
            Cmp::Ne => "!=",
        }
    }
    fn holds(&self, later: i64, earlier: i64) -> bool {
        match self {
            Cmp::Gt => later > earlier,
            Cmp::Ge => later >= earlier,
            Cmp::Lt => later < earlier,
            Cmp::Ne => later != earlier,
        }
    }
}

fn uid(e: &Event) -> i64 {
    get_i(e, "uid").unwrap_or(-1)
}

struct Case {
    pred: Pred,
    all_last: bool,
    xs: Vec<i64>, // x attribute of B_1..B_n (floats are x+0.5 when `floats`)
    floats: bool,
    ax: i64,
    noise: Vec<bool>, // a noise event D after B_i ?
    cap_events: u32,
    cap_results: usize,
}

fn case_json(c: &Case) -> serde_json::Value {
    json!({"pred": format!("{:?}", c.pred), "all_last": c.all_last, "b_x": c.xs, "floats": c.floats, "a_x": c.ax,
           "max_kleene_events": c.cap_events, "max_enumeration_results": c.cap_results})
}

fn num(c: &Case, x: i64) -> Value {
    if c.floats { Value::Float(x as f64 + 0.5) } else { Value::Int(x) }
}

fn build_events(c: &Case) -> Vec<Event> {
    let mut v = vec![ev("A", ts_ms(0), &[("uid", Value::Int(0)), ("x", num(c, c.ax))])];
    for (i, x) in c.xs.iter().enumerate() {
        v.push(ev("B", ts_ms(i as i64 + 1), &[("uid", Value::Int(i as i64 + 1)), ("x", num(c, *x))]));
        if c.noise[i] {
            v.push(ev("D", ts_ms(i as i64 + 1), &[("uid", Value::Int(1000 + i as i64))]));
        }
    }
    if !c.all_last {
        v.push(ev("C", ts_ms(10_000), &[("uid", Value::Int(9999))]));
    }
    v
}

fn pattern(c: &Case) -> SasePattern {
    let p = match c.pred {
        Pred::None => None,
        Pred::ConstGe(k) => Some(Predicate::Compare { field: "x".into(), op: CompareOp::Ge, value: num(c, k) }),
        Pred::RefA(cmp) => Some(Predicate::CompareRef { field: "x".into(), op: cmp.op(), ref_alias: "a".into(), ref_field: "x".into() }),
        Pred::SelfRef(cmp) => Some(Predicate::CompareRef { field: "x".into(), op: cmp.op(), ref_alias: "b".into(), ref_field: "x".into() }),
    };
    let b = SasePattern::Event { event_type: "B".into(), predicate: p, alias: Some("b".into()) };
    let mut steps = vec![PatternBuilder::event_as("A", "a"), PatternBuilder::one_or_more(b)];
    if !c.all_last {
        steps.push(PatternBuilder::event_as("C", "c"));
    }
    PatternBuilder::seq(steps)
}

fn eligible(c: &Case) -> Vec<usize> {
    // indices (1-based uid) of B's that match the *eager* part of the predicate
    (0..c.xs.len())
        .filter(|&i| match c.pred {
            Pred::None | Pred::SelfRef(_) => true,
            Pred::ConstGe(k) => c.xs[i] >= k,
            Pred::RefA(cmp) => cmp.holds(c.xs[i], c.ax),
        })
        .map(|i| i + 1)
        .collect()
}

fn admissible(c: &Case, kept: &[usize], cmp: Cmp, must_end_with: Option<usize>) -> BTreeSet<Vec<i64>> {
    let n = kept.len();
    let mut out = BTreeSet::new();
    for m in 1u32..(1u32 << n) {
        let sub: Vec<usize> = (0..n).filter(|j| m & (1 << j) != 0).map(|j| kept[j]).collect();
        if let Some(e) = must_end_with {
            if *sub.last().unwrap() != e {
                continue;
            }
        }
        if sub.windows(2).all(|w| cmp.holds(c.xs[w[1] - 1], c.xs[w[0] - 1])) {
            out.insert(sub.iter().map(|u| *u as i64).collect());
        }
    }
    out
}

fn sig_of(c: &Case, what: &str) -> String {
    let cls = match c.pred {
        Pred::SelfRef(_) => "self-ref",
        _ => "consistent",
    };
    format!("kleene/{}/{}/{}", if c.all_last { "all-last" } else { "all-middle" }, cls, what)
}

fn run_case(c: &Case, out: &mut Partial) {
    out.eval();
    let events = build_events(c);
    let mut eng = SaseEngine::new(pattern(c))
        .with_max_kleene_events(c.cap_events)
        .with_max_enumeration_results(c.cap_results);
    let elig = eligible(c);
    let kept: Vec<usize> = elig.iter().copied().take(c.cap_events as usize).collect();
    let wit = |extra: serde_json::Value| json!({"case": case_json(c), "observed": extra});
    let mut b_seen: Vec<usize> = vec![];
    for e in &events {
        // The engine's router only hands a sequence stream the event types its pattern names;
        // feeding anything else to SaseEngine directly would build histories the system cannot have.
        if !eng.has_interest(&e.event_type) {
            continue;
        }
        #[cfg(varpulis_verif)]
        varpulis_runtime::verif::kleene_log_start();
        let r = catch(std::panic::AssertUnwindSafe(|| eng.process(e)));
        #[cfg(varpulis_verif)]
        let combos: Vec<Vec<i64>> = varpulis_runtime::verif::kleene_log_take().iter().map(|c| c.iter().map(|e| uid(e)).collect()).collect();
        #[cfg(not(varpulis_verif))]
        let combos: Vec<Vec<i64>> = vec![];
        let results = match r {
            Ok(r) => r,
            Err(p) => {
                out.violation(&sig_of(c, "panic"), "SaseEngine::process panicked", wit(json!({"panic": p, "site": panic_site(&last_panic_location())})));
                return;
            }
        };
        let ty = &*e.event_type;
        if ty == "B" {
            b_seen.push(uid(e) as usize);
        }
        let is_completion = (c.all_last && ty == "B" && elig.contains(&(uid(e) as usize))) || (!c.all_last && ty == "C");
        if !is_completion {
            if !results.is_empty() {
                out.violation(&sig_of(c, "unexpected-completion"), "results reported on an event that completes nothing (a routed event that does not satisfy the step)", wit(json!({"event": event_json(e), "results": results.len()})));
                return; // the run is gone now; later disagreements would only be consequences
            }
            continue;
        }
        out.add("completions_checked", 1);
        // caps (always)
        if results.len() > c.cap_results && matches!(c.pred, Pred::SelfRef(_)) {
            out.violation(&sig_of(c, "results-exceed-cap"), "more matches than max_enumeration_results", wit(json!({"results": results.len()})));
        }
        for r in &results {
            let bs: Vec<i64> = r.stack.iter().filter(|s| &*s.event.event_type == "B").map(|s| uid(&s.event)).collect();
            if bs.len() > c.cap_events as usize {
                out.violation(&sig_of(c, "kept-exceed-cap"), "a match carries more Kleene events than max_kleene_events", wit(json!({"stack_b": bs})));
            }
        }
        let kept_now: Vec<usize> = kept.iter().copied().filter(|u| b_seen.contains(u)).collect();
        match c.pred {
            Pred::SelfRef(cmp) => {
                let capped_events = elig.len() > c.cap_events as usize;
                let expected = if c.all_last {
                    let arriving = uid(e) as usize;
                    if !kept_now.contains(&arriving) { BTreeSet::new() } else { admissible(c, &kept_now, cmp, Some(arriving)) }
                } else {
                    admissible(c, &kept_now, cmp, None)
                };
                if expected.len() >= 3 && expected.len() < ((1usize << kept_now.len()) - 1) {
                    out.nontrivial(&(format!("{:?}", c.pred), c.all_last, c.xs.clone(), c.cap_events, c.cap_results));
                }
                if c.all_last {
                    // observable: one MatchResult per arrival carrying a stack
                    let stacks: Vec<Vec<i64>> = results.iter().map(|r| r.stack.iter().filter(|s| &*s.event.event_type == "B").map(|s| uid(&s.event)).collect()).collect();
                    let got: BTreeSet<Vec<i64>> = stacks.iter().cloned().collect();
                    let want_n = expected.len().min(c.cap_results);
                    let ok = got.is_subset(&expected) && got.len() == stacks.len() && stacks.len() == want_n;
                    if !ok && !capped_events {
                        // classify the known shape: exactly one result = whole stack, predicate never evaluated
                        let whole: Vec<i64> = kept_now.iter().map(|u| *u as i64).collect();
                        let s = if stacks.len() == 1 && stacks[0] == whole { "postponed-predicate-ignored" } else { "combinations-differ" };
                        out.violation(&sig_of(c, s), "with `all` as the last step the reported combinations are not the admissible subsets ending in the arriving event", wit(json!({"arriving": uid(e), "reported_stacks": stacks, "expected": expected.iter().collect::<Vec<_>>() })));
                    }
                    continue;
                }
                #[cfg(varpulis_verif)]
                {
                    if combos.len() != results.len() {
                        out.violation(&sig_of(c, "hook-mismatch"), "number of enumerated combinations differs from number of results", wit(json!({"combos": combos.len(), "results": results.len()})));
                    }
                    let got: BTreeSet<Vec<i64>> = combos.iter().cloned().collect();
                    if got.len() != combos.len() {
                        out.violation(&sig_of(c, "duplicate-combination"), "the same combination is reported twice", wit(json!({"combos": combos})));
                    }
                    if !got.is_subset(&expected) {
                        let bad: Vec<_> = got.difference(&expected).cloned().collect();
                        out.violation(&sig_of(c, "inadmissible-combination"), "a reported combination violates the self-referencing filter or uses events that were not kept", wit(json!({"bad": bad, "kept": kept_now})));
                    }
                    let want_n = expected.len().min(c.cap_results);
                    if got.len() != want_n && !capped_events {
                        out.violation(&sig_of(c, "combination-count"), "number of reported combinations differs from min(cap, admissible)", wit(json!({"got": got.len(), "admissible": expected.len(), "cap": c.cap_results})));
                    } else if capped_events && got.len() > want_n.max(1) && got.len() > c.cap_results {
                        out.violation(&sig_of(c, "results-exceed-cap"), "more combinations than the cap", wit(json!({"got": got.len()})));
                    }
                    if c.cap_results >= expected.len() && !capped_events && got != expected {
                        out.violation(&sig_of(c, "combinations-differ"), "uncapped enumeration does not equal the admissible subsets", wit(json!({"missing": expected.difference(&got).collect::<Vec<_>>() })));
                    }
                }
                let _ = &combos;
            }
            _ => {
                if kept_now.len() >= 3 && elig.len() < c.xs.len() {
                    out.nontrivial(&(format!("{:?}", c.pred), c.all_last, c.xs.clone(), c.cap_events));
                }
                if kept_now.is_empty() {
                    if !results.is_empty() {
                        out.violation(&sig_of(c, "match-without-kleene-event"), "a match was reported although no B satisfied the filter", wit(json!({"results": results.len()})));
                    }
                    continue;
                }
                if results.len() != 1 {
                    out.violation(&sig_of(c, "result-count"), "a consistent Kleene filter must give exactly one match per completion", wit(json!({"results": results.len(), "event": event_json(e)})));
                    continue;
                }
                let bs: Vec<i64> = results[0].stack.iter().filter(|s| &*s.event.event_type == "B").map(|s| uid(&s.event)).collect();
                if bs.len() > c.cap_events as usize {
                    continue; // already reported as kept-exceed-cap; the contents follow from that
                }
                let want: Vec<i64> = kept_now.iter().map(|u| *u as i64).collect();
                let capped = elig.len() > c.cap_events as usize;
                let ok = if capped {
                    // which events are kept under the cap is not specified: subset of eligible, ordered, cap-sized
                    let elig_now: Vec<i64> = elig.iter().filter(|u| b_seen.contains(u)).map(|u| *u as i64).collect();
                    bs.windows(2).all(|w| w[0] < w[1]) && bs.iter().all(|u| elig_now.contains(u)) && bs.len() == elig_now.len().min(c.cap_events as usize)
                } else {
                    bs == want
                };
                if !ok {
                    out.violation(&sig_of(c, "accumulated-events"), "the match does not carry exactly the accumulated B events that satisfy the filter", wit(json!({"stack_b": bs, "expected": want})));
                }
            }
        }
    }
}

fn vpl_case(c: &Case, rt: &tokio::runtime::Runtime, out: &mut Partial) {
    // Same stream through parse -> load -> process with default caps; count outputs per completion.
    if c.xs.len() > 10 {
        return;
    }
    let filt = match c.pred {
        Pred::None => String::new(),
        Pred::ConstGe(k) => format!(" where x >= {}", if c.floats { format!("{}.5", k) } else { k.to_string() }),
        Pred::RefA(cmp) => format!(" where x {} a.x", cmp.txt()),
        Pred::SelfRef(cmp) => format!(" where x {} b.x", cmp.txt()),
    };
    let src = if c.all_last {
        format!("stream S = A as a -> all B{} as b\n    .emit(ua: a.uid, ub: b.uid)\n", filt)
    } else {
        format!("stream S = A as a -> all B{} as b -> C as c\n    .emit(ua: a.uid, ub: b.uid, uc: c.uid)\n", filt)
    };
    out.eval();
    let events = build_events(c);
    let r = catch(std::panic::AssertUnwindSafe(|| run_per_event(rt, &src, &events)));
    let outs = match r {
        Ok(Ok(o)) => o,
        Ok(Err(e)) => {
            out.add("vpl_rejected", 1);
            out.sample(json!({"rejected": src, "error": e}));
            return;
        }
        Err(p) => {
            out.violation(&sig_of(c, "vpl-panic"), "engine panicked", json!({"program": src, "case": case_json(c), "panic": p}));
            return;
        }
    };
    let elig = eligible(c);
    if c.all_last {
        return; // covered by the direct lane; the VPL lane adds the parse/compile path for all-middle
    }
    let total: usize = outs.iter().map(|o| o.len()).sum();
    let at_c = outs.last().map(|o| o.len()).unwrap_or(0);
    let expected = match c.pred {
        Pred::SelfRef(cmp) => admissible(c, &elig.iter().copied().take(20).collect::<Vec<_>>(), cmp, None).len().min(10_000),
        _ => if elig.is_empty() { 0 } else { 1 },
    };
    out.add("vpl_completions_checked", 1);
    if total != at_c || at_c != expected {
        out.violation(&sig_of(c, "vpl-match-count"), "number of matches emitted through the VPL path differs from the admissible combinations", json!({"program": src, "case": case_json(c), "emitted_at_completion": at_c, "emitted_total": total, "expected": expected}));
    }
}

fn main() {
    let args = Args::parse();
    install_quiet_panic_hook();
    watchdog("C03", args.pick(1200, 14400));
    let mut rep = Report::new("C03", "exploration", &args);
    rep.rule = "streams A B^n C (n<=10 quick, <=14 thorough; noise events interleaved; int and float attributes with ties) against Seq[A, KleenePlus(B pred), C] and Seq[A, KleenePlus(B pred)] built with PatternBuilder, predicates: none / constant / reference to A (consistent) and x OP b.x (self-referencing); caps max_kleene_events 1..n+2, max_enumeration_results 1..2^n; plus the VPL form with default caps. Non-trivial: completion with >=3 kept B's where the filter rejects some but not all subsets/events; distinct by (predicate, stream, caps).".into();
    rep.assume("which events are kept when max_kleene_events truncates is not specified: only count, order and membership are checked then");
    rep.assume("for `all` as last step each B arrival is a completion; expected = admissible subsets ending in the arriving B");
    #[cfg(not(varpulis_verif))]
    rep.inconclusive("built without --cfg varpulis_verif: Kleene combinations not observable");
    let threads = ncpu();
    let cases = args.pick(3000usize, 120_000usize);
    let nmax = args.pick(10usize, 14usize);
    let per_thread = cases / threads + 1;
    let parts = parallel(threads, args.seed ^ 0xC03, move |_ti, mut rng| {
        let mut out = Partial::default();
        let rt = rt();
        for i in 0..per_thread {
            let big = rng.chance(1, 8);
            let n = 1 + rng.below(if big { nmax } else { nmax.min(8) });
            let floats = rng.chance(1, 3);
            let pred = match rng.below(8) {
                0 => Pred::None,
                1 => Pred::ConstGe(rng.range(0, 4)),
                2 => Pred::RefA(*rng.pick(&[Cmp::Gt, Cmp::Ge, Cmp::Lt, Cmp::Ne])),
                _ => Pred::SelfRef(*rng.pick(&[Cmp::Gt, Cmp::Gt, Cmp::Ge, Cmp::Lt, Cmp::Ne])),
            };
            let dom = 2 + rng.below(6) as i64;
            let c = Case {
                pred,
                all_last: rng.chance(1, 4),
                xs: (0..n).map(|_| rng.range(0, dom)).collect(),
                floats,
                ax: rng.range(0, dom),
                noise: (0..n).map(|_| rng.chance(1, 5)).collect(),
                cap_events: if rng.chance(1, 2) { 64 } else { 1 + rng.below(n + 2) as u32 },
                cap_results: if rng.chance(1, 2) { 1 << 20 } else { 1 + rng.below(1usize << n.min(12)) },
            };
            run_case(&c, &mut out);
            if i % 4 == 0 {
                vpl_case(&c, &rt, &mut out);
            }
            if out.samples.len() < 2 && n >= 4 && matches!(c.pred, Pred::SelfRef(_)) && !c.all_last {
                out.sample(case_json(&c));
            }
        }
        out
    });
    for p in parts {
        rep.merge(p);
    }
    std::process::exit(rep.finish());
}
