//! C14 — aggregates equal their mathematical definitions on every execution path.
//! Lanes: (1) native path-agreement + definition monitor over random batches (all paths of
//! every aggregate, raw SIMD kernels), (2) engine lane (`.window(n).aggregate(...)`),
//! (3) sanitizer lanes over the only `unsafe` module (simd.rs): valgrind memcheck on this very
//! binary (native AVX2 path) and Miri (scalar get_unchecked path and, with +avx2, the
//! intrinsics path) through /verif/harness-miri.
#[path = "../aggcore.rs"]
mod aggcore;
use aggcore::*;
use serde_json::json;
use std::process::Command;
use vh::eng::*;
use vh::*;

fn engine_lane(batch: &[Cell], period: usize, rt: &tokio::runtime::Runtime, out: &mut Partial) {
    if batch.is_empty() {
        return;
    }
    let src = format!(
        "stream S = E\n    .window({})\n    .aggregate(a_count: count(), a_sum: sum(v), a_avg: avg(v), a_min: min(v), a_max: max(v), a_stddev: stddev(v), a_first: first(v), a_last: last(v), a_count_distinct: count_distinct(v), a_ema: ema(v, {}))\n    .emit(a_count: a_count, a_sum: a_sum, a_avg: a_avg, a_min: a_min, a_max: a_max, a_stddev: a_stddev, a_first: a_first, a_last: a_last, a_count_distinct: a_count_distinct, a_ema: a_ema)\n",
        batch.len(),
        period
    );
    let events = to_events(batch);
    let r = catch(std::panic::AssertUnwindSafe(|| run_flat(rt, &src, &events)));
    let outs = match r {
        Ok(Ok(o)) => o,
        Ok(Err(e)) => {
            out.add("engine_rejected", 1);
            out.sample(json!({"rejected": src, "error": e}));
            return;
        }
        Err(p) => {
            out.violation("engine/panic", "engine panicked while aggregating", json!({"program": src, "panic": p, "site": panic_site(&last_panic_location())}));
            return;
        }
    };
    out.add("engine_windows_checked", 1);
    if outs.len() != 1 {
        out.violation("engine/window-output-count", "a count window of the batch size must emit exactly one aggregate row", json!({"program": src, "outputs": outs.len()}));
        return;
    }
    let o = &outs[0];
    for agg in AGGS.iter() {
        let want = reference(agg, period, batch);
        let got = o.data.get(format!("a_{}", agg).as_str()).cloned().unwrap_or(varpulis_core::Value::Null);
        let ok = match &want {
            Expect::Unspecified => true,
            Expect::Exact(v) => value_close(v, &got, 0.0),
            Expect::Approx(x, tol) => matches!(got, varpulis_core::Value::Float(g) if g == *x || (g - x).abs() <= *tol || (g.is_nan() && x.is_nan())),
        };
        if !ok {
            out.violation(&format!("{}/engine/vs-definition", agg), "aggregate computed through the engine differs from its definition", json!({"batch": batch.iter().map(cell_json).collect::<Vec<_>>(), "period": period, "expected": format!("{:?}", want), "got": format!("{:?}", got)}));
        }
    }
}

fn main() {
    let args = Args::parse();
    install_quiet_panic_hook();
    if args.has_flag("--sanitize-workload") {
        let batches: usize = args.opt("--batches").and_then(|b| b.parse().ok()).unwrap_or(200);
        let p = sanitize_workload(args.seed, batches, 40);
        println!("sanitize-workload batches={} comparisons={} violations={}", p.evaluations, p.counters.get("comparisons").copied().unwrap_or(0), p.violations.len());
        std::process::exit(if p.violations.is_empty() { 0 } else { 1 });
    }
    watchdog("C14", args.pick(1500, 14400));
    let mut rep = Report::new("C14", "exploration", &args);
    rep.rule = "random batches of 0-64 events whose field is float / int / string / bool / missing / NaN / inf (several styles; lengths cover every residue mod 4 around the unroll and AVX2 block boundaries); count, sum, avg, min, max, stddev, first, last, count_distinct, ema on the row, shared, refs, columnar (fresh, pushed with a part-way materialised column, cached, after drain_front) and Aggregator paths, plus raw simd kernels, plus the same batch through `.window(n).aggregate(..)` in the engine; each result against a straightforward reference (relative tolerance 1e-9 on reassociated sums) and against the row path. Non-trivial: >=5 numeric values, >=1 missing/NaN, numeric count not a multiple of 4; distinct by batch contents. Sanitizer lanes: valgrind memcheck and Miri run a deterministic single-threaded subset and report the number of batches they covered.".into();
    rep.assume("stddev/ema NaN handling and count_distinct across int/float-equal values are not documented: only path agreement is checked there");
    rep.assume("absence of sanitizer reports means no UB observed on the executed batches, not memory safety");
    // ---- Miri lanes (scalar get_unchecked path; AVX2 intrinsics path with +avx2): started
    // now, as concurrent single-threaded processes, collected after the native lane ----
    let logdir = args.verif_dir.join("target").join("c14-sanitize");
    let _ = std::fs::create_dir_all(&logdir);
    let miri_dir = args.verif_dir.join("harness-miri");
    let miri_batches = args.pick(14usize, 60usize);
    let miri_shards = args.pick(1usize, 6usize);
    let mut miri_children = vec![];
    for (lane, rustflags) in [("miri-scalar", ""), ("miri-avx2", "-Ctarget-feature=+avx2")] {
        for shard in 0..miri_shards {
            let c = Command::new("cargo")
                .current_dir(&miri_dir)
                .env("CARGO_NET_OFFLINE", "true")
                .env("CARGO_TARGET_DIR", args.verif_dir.join("target").join(lane))
                .env("RUSTFLAGS", rustflags)
                .env("MIRIFLAGS", "-Zmiri-disable-isolation")
                .args(["+nightly", "miri", "run", "--offline", "--quiet", "--", &miri_batches.to_string(), &(args.seed + 1000 * shard as u64).to_string()])
                .stdout(std::process::Stdio::piped())
                .stderr(std::process::Stdio::piped())
                .spawn();
            match c {
                Ok(ch) => miri_children.push((lane, shard, ch)),
                Err(e) => rep.inconclusive(&format!("{} not runnable: {}", lane, e)),
            }
        }
    }
    let threads = ncpu();
    let batches = args.pick(40_000usize, 2_000_000usize);
    let per_thread = batches / threads + 1;
    let parts = parallel(threads, args.seed ^ 0xC14, move |_ti, mut rng| {
        let mut out = Partial::default();
        let rt = rt();
        for i in 0..per_thread {
            let b = gen_batch(&mut rng, 64);
            let period = 1 + rng.below(12);
            let stale_at = if b.is_empty() { 0 } else { rng.below(b.len()) };
            out.eval();
            let n = check_batch(&b, period, stale_at, &mut out);
            out.add("comparisons", n);
            if nontrivial(&b) {
                out.nontrivial(&format!("{:?}", b));
                if out.samples.len() < 2 {
                    out.sample(json!({"batch": b.iter().map(cell_json).collect::<Vec<_>>(), "period": period}));
                }
            }
            if i % 16 == 0 {
                engine_lane(&b, period, &rt, &mut out);
            }
        }
        out
    });
    for p in parts {
        rep.merge(p);
    }

    // ---- valgrind memcheck lane (native AVX2 path of this binary) ----
    let exe = std::env::current_exe().expect("exe");
    let vg_batches = args.pick(1200usize, 20_000usize);
    let vg_log = logdir.join(format!("valgrind-{}-{}.log", args.tier, args.seed));
    let vg = Command::new("valgrind")
        .args(["--error-exitcode=97", "--leak-check=no", "--quiet"])
        .arg(format!("--log-file={}", vg_log.display()))
        .arg(&exe)
        .args(["--sanitize-workload", "--batches", &vg_batches.to_string(), "--seed", &args.seed.to_string()])
        .output();
    match vg {
        Ok(o) => {
            let code = o.status.code().unwrap_or(-1);
            let log = std::fs::read_to_string(&vg_log).unwrap_or_default();
            rep.set("valgrind_batches", json!(vg_batches));
            rep.set("valgrind_exit", json!(code));
            if code == 97 || log.contains("Invalid read") || log.contains("Invalid write") || log.contains("uninitialised") {
                rep.violation("sanitizer/valgrind-memcheck/simd", "valgrind memcheck reported an error while aggregating", json!({"log": vg_log.display().to_string(), "excerpt": log.chars().take(3000).collect::<String>()}));
            } else if code == 1 {
                rep.violation("sanitizer/valgrind-workload/oracle", "the aggregate oracle failed under valgrind (but not natively?)", json!({"stdout": String::from_utf8_lossy(&o.stdout)}));
            } else if code != 0 {
                rep.inconclusive(&format!("valgrind lane exited with {}", code));
            }
        }
        Err(e) => rep.inconclusive(&format!("valgrind not runnable: {}", e)),
    }

    // ---- Miri lanes: collect the children started before the native lane ----
    for (lane, shard, child) in miri_children {
        match child.wait_with_output() {
            Ok(o) => {
                let code = o.status.code().unwrap_or(-1);
                let err = String::from_utf8_lossy(&o.stderr).to_string();
                let outp = String::from_utf8_lossy(&o.stdout).to_string();
                rep.add(&format!("{}_processes", lane), 1);
                rep.add(&format!("{}_batches", lane), miri_batches as u64);
                rep.set(&format!("{}_last_stdout", lane), json!(outp.lines().find(|l| l.starts_with("miri-workload")).unwrap_or("")));
                if lane == "miri-avx2" && !outp.contains("avx2_path=true") && code == 0 {
                    rep.inconclusive("miri-avx2 lane did not take the AVX2 path");
                }
                if err.contains("Undefined Behavior") {
                    let _ = std::fs::write(logdir.join(format!("{}-{}-{}.log", lane, args.seed, shard)), &err);
                    rep.violation(&format!("sanitizer/{}/simd", lane), "Miri reported undefined behaviour while aggregating", json!({"stderr": err.chars().take(4000).collect::<String>()}));
                } else if code == 1 && outp.contains("violations=") {
                    rep.violation(&format!("sanitizer/{}/oracle", lane), "the aggregate oracle failed under Miri", json!({"stdout": outp}));
                } else if code != 0 {
                    rep.inconclusive(&format!("{} lane exited with {}: {}", lane, code, err.lines().last().unwrap_or("")));
                }
            }
            Err(e) => rep.inconclusive(&format!("{} not collectable: {}", lane, e)),
        }
    }
    std::process::exit(rep.finish());
}
