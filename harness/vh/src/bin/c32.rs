//! C32 — coordinator bookkeeping stays consistent under any interleaving.
//!
//! Invariant (checked after every step, between calls = under the coordinator's own lock):
//!   * every `Running` placement names a worker that is registered (present in `coord.workers`);
//!   * for every registered worker, `assigned_pipelines` as a multiset equals the multiset of names of
//!     the `Running` placements that name this worker (no orphaned assignment, no missing one, no
//!     duplicate), and `capacity.pipelines_running` equals the size of that multiset.
//! The checker is the harness's own bookkeeping over the public fields of the real `Coordinator`.
//!
//! Driver (a) — enumerated phase orders, no HTTP. `plan_*`/`commit_*` are exactly what the REST handlers
//! call (api.rs: plan under the read lock, HTTP without lock, commit under the write lock), so for
//! three layouts (2-3 workers, 1-2 groups) every single operation, every pair and every triple of
//! operations from a menu (deploy with every per-task outcome, teardown, manual migration with both
//! outcomes to every worker, deregistration, registration) is executed in every order of its
//! plan/commit phases. A violating history is attributed to the smallest sub-history (same relative
//! order) that still violates; only minimal histories are reported.
//!
//! Driver (b) — the real warp handlers (`cluster_routes` driven with `warp::test`), `drain_worker`,
//! sweep + `handle_worker_failure` (as main.rs), `rebalance`, heartbeats, (de)registrations against
//! in-process mock worker HTTP servers on loopback. The mock workers have a gate: a handler-driven
//! operation is held at its first worker call (= after its plan, before its commit) while other
//! operations run to completion, then released with a scripted outcome. The HTTP call is the real
//! window between plan and commit; the gate makes the order reproducible.
//!
//! Signature = `<kind of the operation whose step broke the invariant>[/stale-after:<kinds of the
//! operations whose state change fell inside its plan..commit window>]/<broken clause>`, taken from a
//! history that is minimal (no operation can be dropped) and minimally overlapped (no operation can
//! plan right before its commit) — e.g. `deregister/orphaned-running-placement`,
//! `migrate/stale-after:teardown/orphaned-assignment`. State changes are named by what they do:
//! `migration` (manual migrate, drain, failover, rebalance, health-loop rebalance), `teardown`,
//! `worker-removal` (deregister, drain), `deploy`.

use serde_json::{json, Value as J};
use std::collections::{BTreeMap, BTreeSet, HashSet};
use std::sync::atomic::Ordering;
use std::sync::{Arc, Mutex};
use std::time::{Duration, Instant};
use varpulis_cluster::coordinator::{DeployGroupPlan, DeployResponse, DeployTaskResult, MigratePipelinePlan, TeardownPlan};
use varpulis_cluster::{
    Coordinator, MigrationReason, PipelineDeploymentStatus, PipelineGroupSpec, PipelinePlacement, WorkerId, WorkerNode, WorkerStatus,
};
use vh::*;

#[path = "../gatemock.rs"]
mod gatemock;

/// Oracle self-test switch (`--perturb <name>`, never set by the driver): deliberately wrong
/// expectations used to confirm that the monitor fires. Run with `--verif-dir <scratch>`.
static PERTURB: std::sync::OnceLock<String> = std::sync::OnceLock::new();
fn perturb(name: &str) -> bool {
    PERTURB.get().map(|p| p == name).unwrap_or(false)
}

// =====================================================================================
// The invariant (independent bookkeeping over the public state)
// =====================================================================================

/// Returns the broken clauses (finite set of names) with a detail each.
fn check_invariant(coord: &Coordinator) -> Vec<(&'static str, J)> {
    let mut broken: Vec<(&'static str, J)> = vec![];
    // Running placements per worker (multiset of replica names)
    let mut placed: BTreeMap<String, Vec<String>> = BTreeMap::new();
    let mut gids: Vec<&String> = coord.pipeline_groups.keys().collect();
    gids.sort();
    for gid in gids {
        let g = &coord.pipeline_groups[gid];
        let mut names: Vec<&String> = g.placements.keys().collect();
        names.sort();
        for name in names {
            let d = &g.placements[name];
            if d.status != PipelineDeploymentStatus::Running {
                continue;
            }
            if !coord.workers.contains_key(&d.worker_id) {
                broken.push((
                    "orphaned-running-placement",
                    json!({"group": g.name, "group_id": gid, "pipeline": name, "worker": d.worker_id.0, "why": "placement is Running on a worker that is not registered"}),
                ));
            }
            placed.entry(d.worker_id.0.clone()).or_default().push(name.clone());
        }
    }
    let mut wids: Vec<&WorkerId> = coord.workers.keys().collect();
    wids.sort_by(|a, b| a.0.cmp(&b.0));
    for wid in wids {
        let w = &coord.workers[wid];
        let mut want = placed.get(&wid.0).cloned().unwrap_or_default();
        want.sort();
        let mut have = w.assigned_pipelines.clone();
        have.sort();
        // multiset differences
        let mut want_count: BTreeMap<&String, i64> = BTreeMap::new();
        for n in &want {
            *want_count.entry(n).or_insert(0) += 1;
        }
        let mut have_count: BTreeMap<&String, i64> = BTreeMap::new();
        for n in &have {
            *have_count.entry(n).or_insert(0) += 1;
        }
        let mut assigned_ok = true;
        for (n, hc) in &have_count {
            let wc = want_count.get(*n).copied().unwrap_or(0);
            if *hc > wc {
                assigned_ok = false;
                if wc == 0 {
                    broken.push((
                        "orphaned-assignment",
                        json!({"worker": wid.0, "pipeline": n, "why": "listed in assigned_pipelines but no Running placement names this worker", "assigned": have, "running_placements": want}),
                    ));
                } else {
                    broken.push((
                        "duplicate-assignment",
                        json!({"worker": wid.0, "pipeline": n, "assigned_times": hc, "running_placements_times": wc, "assigned": have, "running_placements": want}),
                    ));
                }
            }
        }
        for (n, wc) in &want_count {
            let hc = have_count.get(*n).copied().unwrap_or(0);
            if hc < *wc {
                assigned_ok = false;
                broken.push((
                    "missing-assignment",
                    json!({"worker": wid.0, "pipeline": n, "why": "a Running placement names this worker but assigned_pipelines does not list it", "assigned": have, "running_placements": want}),
                ));
            }
        }
        // the count moves with the list in every code path; report it on its own only when the list is right
        let expect = if perturb("count-plus-one") { want.len() + 1 } else { want.len() };
        if assigned_ok && w.capacity.pipelines_running != expect {
            broken.push((
                "running-count",
                json!({"worker": wid.0, "pipelines_running": w.capacity.pipelines_running, "running_placements": want, "assigned": have}),
            ));
        }
    }
    // one entry per clause is enough for the signature; keep the first detail of each
    let mut seen = BTreeSet::new();
    broken.retain(|(c, _)| seen.insert(*c));
    broken
}

fn dump(coord: &Coordinator) -> J {
    let mut ws: Vec<J> = vec![];
    let mut wids: Vec<&WorkerId> = coord.workers.keys().collect();
    wids.sort_by(|a, b| a.0.cmp(&b.0));
    for wid in wids {
        let w = &coord.workers[wid];
        ws.push(json!({"id": wid.0, "status": w.status.to_string(), "assigned_pipelines": w.assigned_pipelines, "pipelines_running": w.capacity.pipelines_running}));
    }
    let mut gs: Vec<J> = vec![];
    let mut gids: Vec<&String> = coord.pipeline_groups.keys().collect();
    gids.sort_by_key(|g| (coord.pipeline_groups[*g].name.clone(), (*g).clone()));
    for gid in gids {
        let g = &coord.pipeline_groups[gid];
        let mut pl = BTreeMap::new();
        for (n, d) in &g.placements {
            pl.insert(n.clone(), json!({"worker": d.worker_id.0, "status": format!("{:?}", d.status), "pipeline_id": d.pipeline_id, "epoch": d.epoch}));
        }
        gs.push(json!({"name": g.name, "id": gid, "status": g.status.to_string(), "placements": pl}));
    }
    json!({"workers": ws, "groups": gs})
}

// =====================================================================================
// Driver (a): enumerated phase orders
// =====================================================================================

#[derive(Clone, Debug, Hash, PartialEq, Eq)]
enum GroupRef {
    /// i-th group of the layout
    Init(usize),
    /// the group committed most recently by a deploy operation of this history
    New,
}

#[derive(Clone, Debug, Hash, PartialEq, Eq)]
enum OpSpec {
    /// pipelines (name, pinned worker, replicas); outcome per task in plan order
    Deploy { group: String, pipelines: Vec<(String, String, usize)>, outcomes: Vec<bool> },
    Teardown { group: GroupRef },
    Migrate { group: GroupRef, pipeline: String, target: String, success: bool },
    Deregister { worker: String },
    Register { worker: String },
}

impl OpSpec {
    fn phases(&self) -> usize {
        match self {
            OpSpec::Deploy { .. } | OpSpec::Teardown { .. } | OpSpec::Migrate { .. } => 2,
            _ => 1,
        }
    }
    fn to_json(&self) -> J {
        match self {
            OpSpec::Deploy { group, pipelines, outcomes } => json!({"op": "deploy", "group_name": group,
                "pipelines": pipelines.iter().map(|(n, w, r)| json!({"name": n, "worker_affinity": w, "replicas": r})).collect::<Vec<_>>(),
                "task_outcomes": outcomes.iter().map(|o| if *o { "ok" } else { "error" }).collect::<Vec<_>>()}),
            OpSpec::Teardown { group } => json!({"op": "teardown", "group": format!("{:?}", group)}),
            OpSpec::Migrate { group, pipeline, target, success } => json!({"op": "migrate", "group": format!("{:?}", group), "pipeline": pipeline, "target_worker": target, "worker_calls": if *success { "ok" } else { "deploy on target fails" }}),
            OpSpec::Deregister { worker } => json!({"op": "deregister", "worker": worker}),
            OpSpec::Register { worker } => json!({"op": "register", "worker": worker}),
        }
    }
}

#[derive(Clone, Debug, Hash, PartialEq, Eq)]
struct Layout {
    name: &'static str,
    workers: Vec<String>,
    /// (group name, pipelines (name, pinned worker, replicas))
    groups: Vec<(String, Vec<(String, String, usize)>)>,
}

fn layouts() -> Vec<Layout> {
    let s = |x: &str| x.to_string();
    vec![
        Layout { name: "A: w1,w2; g1{a@w1,b@w2}", workers: vec![s("w1"), s("w2")], groups: vec![(s("g1"), vec![(s("a"), s("w1"), 1), (s("b"), s("w2"), 1)])] },
        Layout {
            name: "B: w1,w2,w3; g1{a@w1,b@w2} g2{c@w1}; w3 empty",
            workers: vec![s("w1"), s("w2"), s("w3")],
            groups: vec![(s("g1"), vec![(s("a"), s("w1"), 1), (s("b"), s("w2"), 1)]), (s("g2"), vec![(s("c"), s("w1"), 1)])],
        },
        Layout {
            name: "C: w1,w2,w3; g1{a x2 replicas @w1} g2{c@w2}; w3 empty",
            workers: vec![s("w1"), s("w2"), s("w3")],
            groups: vec![(s("g1"), vec![(s("a"), s("w1"), 2)]), (s("g2"), vec![(s("c"), s("w2"), 1)])],
        },
    ]
}

fn menu(l: &Layout) -> Vec<OpSpec> {
    let s = |x: &str| x.to_string();
    let last = l.workers.last().unwrap().clone();
    let mut m = vec![];
    // deploys: one task, two tasks, and a spec re-using a pipeline name of g1
    for o in [true, false] {
        m.push(OpSpec::Deploy { group: s("gn"), pipelines: vec![(s("d"), last.clone(), 1)], outcomes: vec![o] });
    }
    for o1 in [true, false] {
        for o2 in [true, false] {
            m.push(OpSpec::Deploy { group: s("gn"), pipelines: vec![(s("d"), s("w1"), 1), (s("e"), last.clone(), 1)], outcomes: vec![o1, o2] });
        }
    }
    let first_name = l.groups[0].1[0].0.clone();
    m.push(OpSpec::Deploy { group: s("gdup"), pipelines: vec![(first_name.clone(), s("w1"), 1)], outcomes: vec![true] });
    // teardowns
    for i in 0..l.groups.len() {
        m.push(OpSpec::Teardown { group: GroupRef::Init(i) });
    }
    m.push(OpSpec::Teardown { group: GroupRef::New });
    // migrations: first replica of g1, first pipeline of the last group, the new group's d — to every worker
    let first_replica = if l.groups[0].1[0].2 > 1 { format!("{}#0", first_name) } else { first_name };
    let mut subjects = vec![(GroupRef::Init(0), first_replica)];
    if l.groups.len() > 1 {
        let gi = l.groups.len() - 1;
        subjects.push((GroupRef::Init(gi), l.groups[gi].1[0].0.clone()));
    }
    subjects.push((GroupRef::New, s("d")));
    for (g, p) in subjects {
        for t in &l.workers {
            for ok in [true, false] {
                m.push(OpSpec::Migrate { group: g.clone(), pipeline: p.clone(), target: t.clone(), success: ok });
            }
        }
    }
    for w in &l.workers {
        m.push(OpSpec::Deregister { worker: w.clone() });
    }
    m.push(OpSpec::Register { worker: s("w9") });
    m
}

/// All merges of the phase sequences of `ops` (op i contributes phases 0..k_i in order).
fn schedules(ops: &[OpSpec]) -> Vec<Vec<(usize, usize)>> {
    fn rec(ops: &[OpSpec], next: &mut Vec<usize>, cur: &mut Vec<(usize, usize)>, out: &mut Vec<Vec<(usize, usize)>>) {
        let mut done = true;
        for i in 0..ops.len() {
            if next[i] < ops[i].phases() {
                done = false;
                cur.push((i, next[i]));
                next[i] += 1;
                rec(ops, next, cur, out);
                next[i] -= 1;
                cur.pop();
            }
        }
        if done {
            out.push(cur.clone());
        }
    }
    let mut out = vec![];
    rec(ops, &mut vec![0; ops.len()], &mut vec![], &mut out);
    out
}

fn base_kind(o: &OpSpec) -> &'static str {
    match o {
        OpSpec::Deploy { .. } => "deploy",
        OpSpec::Teardown { .. } => "teardown",
        OpSpec::Migrate { .. } => "migrate",
        OpSpec::Deregister { .. } => "deregister",
        OpSpec::Register { .. } => "register",
    }
}

/// Class of a state change that can invalidate a plan (finite): what it did matters, not which entry point did it.
fn inv_class(base: &str) -> &'static str {
    match base {
        "migrate" | "failover" | "rebalance" | "tick" | "restart" => "migration",
        "teardown" => "teardown",
        "deregister" => "worker-removal",
        // a drain both moves placements and removes the worker; which of the two invalidated the plan shows in the clause
        "drain" => "drain",
        "deploy" => "deploy",
        "register" => "register",
        "heartbeat" => "heartbeat",
        _ => "other",
    }
}

/// Does another group have a placement with the same replica name? (`assigned_pipelines` holds bare names.)
fn name_shared(coord: &Coordinator, gid: &str, name: &str) -> bool {
    coord.pipeline_groups.iter().any(|(id, g)| id != gid && g.placements.contains_key(name))
}

enum Pending {
    None,
    Deploy(DeployGroupPlan),
    Teardown(TeardownPlan),
    Migrate(MigratePipelinePlan),
    Aborted,
}

struct RunResult {
    /// broken clauses at the first violating step
    broken: Vec<(&'static str, J)>,
    /// descriptive operation kind per op (witness only)
    kinds: Vec<String>,
    /// kind used in the signature when this op's step breaks the invariant (finite enumeration)
    sig_kinds: Vec<String>,
    /// the operation's pipeline names were also used by another group when it planned or committed
    shared: Vec<bool>,
    /// workers touched per op
    touched: Vec<BTreeSet<String>>,
    trace: Vec<J>,
    state: J,
    violating_step: Option<usize>,
}

fn reset(coord: &mut Coordinator) {
    coord.workers.clear();
    coord.pipeline_groups.clear();
    coord.connectors.clear();
    coord.worker_metrics.clear();
    coord.active_migrations.clear();
    coord.pending_rebalance = false;
    coord.last_health_sweep = None;
}

fn spec_of(group: &str, pipelines: &[(String, String, usize)]) -> PipelineGroupSpec {
    PipelineGroupSpec {
        name: group.to_string(),
        pipelines: pipelines
            .iter()
            .map(|(n, w, r)| PipelinePlacement { name: n.clone(), source: format!("stream {}_out = E", n), worker_affinity: Some(w.clone()), replicas: *r, partition_key: None })
            .collect(),
        routes: vec![],
    }
}

fn fabricate(plan: &DeployGroupPlan, outcomes: &[bool], uid: &mut u64) -> Vec<DeployTaskResult> {
    plan.tasks
        .iter()
        .enumerate()
        .map(|(i, t)| {
            *uid += 1;
            DeployTaskResult {
                replica_name: t.replica_name.clone(),
                pipeline_name: t.pipeline_name.clone(),
                worker_id: t.worker_id.clone(),
                worker_address: t.worker_address.clone(),
                worker_api_key: t.worker_api_key.clone(),
                replica_count: t.replica_count,
                outcome: if outcomes.get(i).copied().unwrap_or(true) {
                    Ok(DeployResponse { id: format!("pid-{}", uid), name: t.replica_name.clone(), status: "running".into() })
                } else {
                    Err("HTTP 500 - injected".to_string())
                },
            }
        })
        .collect()
}

/// Build the layout on a cleared coordinator (sequential all-success deploys through plan/commit).
fn build_layout(coord: &mut Coordinator, l: &Layout, uid: &mut u64) -> Result<Vec<String>, String> {
    reset(coord);
    for w in &l.workers {
        let mut node = WorkerNode::new(WorkerId(w.clone()), "http://127.0.0.1:1".into(), "key".into());
        node.capacity.cpu_cores = 4;
        node.capacity.max_pipelines = 100;
        coord.register_worker(node);
    }
    let mut gids = vec![];
    for (gname, pipes) in &l.groups {
        let spec = spec_of(gname, pipes);
        let plan = coord.plan_deploy_group(&spec).map_err(|e| format!("layout plan failed: {e}"))?;
        let res = fabricate(&plan, &[], uid);
        let gid = coord.commit_deploy_group(plan, res).map_err(|e| format!("layout commit failed: {e}"))?;
        gids.push(gid);
    }
    coord.pending_rebalance = false;
    Ok(gids)
}

fn run_history(coord: &mut Coordinator, l: &Layout, ops: &[OpSpec], sched: &[(usize, usize)], want_trace: bool) -> Result<RunResult, String> {
    let mut uid = 0u64;
    let init_gids = build_layout(coord, l, &mut uid)?;
    let pre = check_invariant(coord);
    if !pre.is_empty() && !perturb("count-plus-one") {
        return Err(format!("layout itself violates the invariant: {:?}", pre));
    }
    let mut pending: Vec<Pending> = ops.iter().map(|_| Pending::None).collect();
    let mut kinds: Vec<String> = ops.iter().map(|_| String::new()).collect();
    let mut sig_kinds: Vec<String> = ops.iter().map(|o| base_kind(o).to_string()).collect();
    let mut shared_flags: Vec<bool> = ops.iter().map(|_| false).collect();
    let mut touched: Vec<BTreeSet<String>> = ops.iter().map(|_| BTreeSet::new()).collect();
    let mut new_gid: Option<String> = None;
    let mut trace = vec![];
    let resolve = |g: &GroupRef, new_gid: &Option<String>| -> String {
        match g {
            GroupRef::Init(i) => init_gids[*i].clone(),
            GroupRef::New => new_gid.clone().unwrap_or_else(|| "no-such-group".to_string()),
        }
    };
    let mut rr = RunResult { broken: vec![], kinds: vec![], sig_kinds: vec![], shared: vec![], touched: vec![], trace: vec![], state: J::Null, violating_step: None };
    for (si, (oi, ph)) in sched.iter().enumerate() {
        let op = &ops[*oi];
        let mut note = J::Null;
        match (op, ph) {
            (OpSpec::Deploy { group, pipelines, outcomes }, 0) => {
                let spec = spec_of(group, pipelines);
                match coord.plan_deploy_group(&spec) {
                    Ok(plan) => {
                        // names already used by a placement or by a deploy still in flight?
                        let mut dup = false;
                        for t in &plan.tasks {
                            touched[*oi].insert(t.worker_id.0.clone());
                            if coord.pipeline_groups.values().any(|g| g.placements.contains_key(&t.replica_name)) {
                                dup = true;
                            }
                            for p in &pending {
                                if let Pending::Deploy(other) = p {
                                    if other.tasks.iter().any(|o| o.replica_name == t.replica_name) {
                                        dup = true;
                                    }
                                }
                            }
                        }
                        let fail = plan.tasks.iter().enumerate().any(|(i, _)| !outcomes.get(i).copied().unwrap_or(true));
                        kinds[*oi] = format!("deploy{}{}", if dup { "(dup-names)" } else { "" }, if fail { "(task-failed)" } else { "" });
                        if want_trace {
                            note = json!({"plan": plan.tasks.iter().map(|t| json!({"replica": t.replica_name, "worker": t.worker_id.0})).collect::<Vec<_>>()});
                        }
                        pending[*oi] = Pending::Deploy(plan);
                    }
                    Err(e) => {
                        kinds[*oi] = "deploy(refused)".into();
                        note = json!({"plan_error": e.to_string()});
                        pending[*oi] = Pending::Aborted;
                    }
                }
            }
            (OpSpec::Deploy { outcomes, .. }, _) => {
                if let Pending::Deploy(plan) = std::mem::replace(&mut pending[*oi], Pending::None) {
                    let res = fabricate(&plan, outcomes, &mut uid);
                    match coord.commit_deploy_group(plan, res) {
                        Ok(gid) => new_gid = Some(gid),
                        Err(e) => note = json!({"commit_error": e.to_string()}),
                    }
                } else {
                    note = json!("skipped (plan was refused)");
                }
            }
            (OpSpec::Teardown { group }, 0) => {
                let gid = resolve(group, &new_gid);
                match coord.plan_teardown_group(&gid) {
                    Ok(plan) => {
                        for (_, d) in &plan.tasks {
                            touched[*oi].insert(d.worker_id.0.clone());
                        }
                        kinds[*oi] = "teardown".into();
                        if plan.tasks.iter().any(|(n, _)| name_shared(coord, &gid, n)) {
                            shared_flags[*oi] = true;
                            kinds[*oi] = "teardown(shared-name)".into();
                        }
                        if want_trace {
                            note = json!({"plan": plan.tasks.iter().map(|(n, d)| json!({"pipeline": n, "worker": d.worker_id.0})).collect::<Vec<_>>()});
                        }
                        pending[*oi] = Pending::Teardown(plan);
                    }
                    Err(e) => {
                        kinds[*oi] = "teardown(refused)".into();
                        note = json!({"plan_error": e.to_string()});
                        pending[*oi] = Pending::Aborted;
                    }
                }
            }
            (OpSpec::Teardown { .. }, _) => {
                if let Pending::Teardown(plan) = std::mem::replace(&mut pending[*oi], Pending::None) {
                    if plan.tasks.iter().any(|(n, _)| name_shared(coord, &plan.group_id, n)) {
                        shared_flags[*oi] = true;
                    }
                    coord.commit_teardown_group(&plan);
                } else {
                    note = json!("skipped (plan was refused)");
                }
            }
            (OpSpec::Migrate { group, pipeline, target, .. }, 0) => {
                let gid = resolve(group, &new_gid);
                match coord.plan_migrate_pipeline(pipeline, &gid, &WorkerId(target.clone()), MigrationReason::Manual) {
                    Ok(plan) => {
                        touched[*oi].insert(plan.source_worker_id.0.clone());
                        touched[*oi].insert(plan.target_worker_id.0.clone());
                        let mut k = if plan.source_worker_id == plan.target_worker_id {
                            "migrate(to-same-worker)".to_string()
                        } else if plan.deployment.status != PipelineDeploymentStatus::Running {
                            "migrate(source-not-running)".to_string()
                        } else {
                            "migrate".to_string()
                        };
                        sig_kinds[*oi] = k.clone();
                        if name_shared(coord, &gid, &plan.pipeline_name) {
                            shared_flags[*oi] = true;
                            k.push_str("(shared-name)");
                        }
                        kinds[*oi] = k;
                        if want_trace {
                            note = json!({"plan": {"pipeline": plan.pipeline_name, "from": plan.source_worker_id.0, "to": plan.target_worker_id.0, "source_placement_status": format!("{:?}", plan.deployment.status), "source_epoch": plan.deployment.epoch}});
                        }
                        pending[*oi] = Pending::Migrate(plan);
                    }
                    Err(e) => {
                        kinds[*oi] = "migrate(refused)".into();
                        note = json!({"plan_error": e.to_string()});
                        pending[*oi] = Pending::Aborted;
                    }
                }
            }
            (OpSpec::Migrate { success, .. }, _) => {
                if let Pending::Migrate(plan) = std::mem::replace(&mut pending[*oi], Pending::None) {
                    uid += 1;
                    if name_shared(coord, &plan.group_id, &plan.pipeline_name) {
                        shared_flags[*oi] = true;
                    }
                    if *success {
                        coord.commit_migrate_pipeline(&plan, &format!("pid-{}", uid), true, None);
                    } else {
                        kinds[*oi].push_str("(failed)");
                        coord.commit_migrate_pipeline(&plan, "", false, Some("Deploy to target failed: injected".into()));
                    }
                } else {
                    note = json!("skipped (plan was refused)");
                }
            }
            (OpSpec::Deregister { worker }, _) => {
                touched[*oi].insert(worker.clone());
                kinds[*oi] = "deregister".into();
                if let Err(e) = coord.deregister_worker(&WorkerId(worker.clone())) {
                    kinds[*oi] = "deregister(refused)".into();
                    note = json!({"error": e.to_string()});
                }
            }
            (OpSpec::Register { worker }, _) => {
                touched[*oi].insert(worker.clone());
                kinds[*oi] = "register".into();
                let mut node = WorkerNode::new(WorkerId(worker.clone()), "http://127.0.0.1:1".into(), "key".into());
                node.capacity.cpu_cores = 4;
                coord.register_worker(node);
            }
        }
        if want_trace {
            let phase = if op.phases() == 1 { "call" } else if *ph == 0 { "plan" } else { "commit" };
            trace.push(json!({"step": si, "op_index": oi, "phase": phase, "note": note}));
        }
        let broken = check_invariant(coord);
        if !broken.is_empty() {
            rr.broken = broken;
            rr.violating_step = Some(si);
            break;
        }
    }
    rr.kinds = kinds;
    rr.sig_kinds = sig_kinds;
    rr.shared = shared_flags;
    rr.touched = touched;
    rr.trace = trace;
    if want_trace {
        rr.state = dump(coord);
    }
    Ok(rr)
}

/// Base kinds of the operations whose state change (commit of a two-phase operation, or a single-call
/// operation) fell strictly inside the plan..commit window of operation `oi` (empty for single-call operations).
fn invalidators(ops: &[OpSpec], sched: &[(usize, usize)], oi: usize) -> BTreeSet<&'static str> {
    let mut inv = BTreeSet::new();
    if ops[oi].phases() != 2 {
        return inv;
    }
    let (Some(p), Some(c)) = (sched.iter().position(|s| *s == (oi, 0)), sched.iter().position(|s| *s == (oi, 1))) else { return inv };
    for (k, (oj, ph)) in sched.iter().enumerate() {
        if k > p && k < c && *oj != oi && (ops[*oj].phases() == 1 || *ph == 1) {
            inv.insert(inv_class(base_kind(&ops[*oj])));
        }
    }
    inv
}

/// Is some two-phase operation's window non-trivially overlapped (another state change inside it)?
fn any_overlap(ops: &[OpSpec], sched: &[(usize, usize)]) -> bool {
    (0..ops.len()).any(|i| !invalidators(ops, sched, i).is_empty())
}

/// The same history with operation `oi` planning immediately before its commit (None if it already does).
fn collapse(sched: &[(usize, usize)], oi: usize) -> Option<Vec<(usize, usize)>> {
    let p = sched.iter().position(|s| *s == (oi, 0))?;
    let c = sched.iter().position(|s| *s == (oi, 1))?;
    if c == p + 1 {
        return None;
    }
    let mut v: Vec<(usize, usize)> = sched.to_vec();
    v.remove(p);
    v.insert(c - 1, (oi, 0));
    Some(v)
}

fn project(ops: &[OpSpec], sched: &[(usize, usize)], keep: &[usize]) -> (Vec<OpSpec>, Vec<(usize, usize)>) {
    let sub_ops: Vec<OpSpec> = keep.iter().map(|i| ops[*i].clone()).collect();
    let sub_sched: Vec<(usize, usize)> = sched.iter().filter_map(|(oi, ph)| keep.iter().position(|k| k == oi).map(|ni| (ni, *ph))).collect();
    (sub_ops, sub_sched)
}

fn driver_a(args: &Args, rep: &mut Report) {
    let thorough = args.thorough();
    let ls = layouts();
    // work list: (layout index, ops)
    let mut work: Vec<(usize, Vec<OpSpec>)> = vec![];
    for (li, l) in ls.iter().enumerate() {
        let m = menu(l);
        for i in 0..m.len() {
            work.push((li, vec![m[i].clone()]));
            for j in i..m.len() {
                work.push((li, vec![m[i].clone(), m[j].clone()]));
                for k in j..m.len() {
                    work.push((li, vec![m[i].clone(), m[j].clone(), m[k].clone()]));
                }
            }
        }
    }
    // quick tier: all singles and pairs, and a deterministic stride over the triples (same for every seed
    // so that the signature set does not depend on the seed); thorough: everything.
    let stride = if thorough { 1 } else { 8 };
    let mut t = 0usize;
    work.retain(|(_, ops)| {
        if ops.len() < 3 {
            return true;
        }
        t += 1;
        t % stride == 0
    });
    // singles and pairs first (always complete), triples afterwards (quick: until the time budget is used up)
    work.sort_by_key(|(_, ops)| ops.len());
    let triple_budget = Duration::from_secs(if thorough { 36000 } else { 6 });
    rep.set("a_op_multisets", json!(work.len()));
    let work = Arc::new(work);
    let ls = Arc::new(ls);
    let n = ncpu();
    let parts = parallel(n, args.seed, {
        let work = work.clone();
        let ls = ls.clone();
        move |ti, _rng| {
            let mut out = Partial::default();
            let mut coord = Coordinator::new();
            let mut distinct_orders: HashSet<u64> = HashSet::new();
            let t0 = Instant::now();
            for (wi, (li, ops)) in work.iter().enumerate() {
                if wi % n != ti {
                    continue;
                }
                if ops.len() >= 3 && t0.elapsed() > triple_budget {
                    out.add("a_triples_skipped_for_time", 1);
                    continue;
                }
                out.add(if ops.len() == 1 { "a_single_operations" } else if ops.len() == 2 { "a_operation_pairs" } else { "a_operation_triples" }, 1);
                let l = &ls[*li];
                for sched in schedules(ops) {
                    out.eval();
                    let r = match run_history(&mut coord, l, ops, &sched, false) {
                        Ok(r) => r,
                        Err(e) => {
                            out.inconclusive(&e);
                            return out;
                        }
                    };
                    // non-trivial: >=2 operations that overlap (one's state change inside the other's window)
                    // and touch a common worker
                    let overlapped = any_overlap(ops, &sched);
                    let mut common = false;
                    for i in 0..ops.len() {
                        for j in i + 1..ops.len() {
                            if r.touched[i].intersection(&r.touched[j]).next().is_some() {
                                common = true;
                            }
                        }
                    }
                    if ops.len() >= 2 && overlapped && common {
                        out.nontrivial(&(li, ops, &sched));
                        distinct_orders.insert(hash64(&(li, ops, &sched)));
                    }
                    if r.violating_step.is_none() {
                        continue;
                    }
                    out.add("a_violating_histories", 1);
                    // attribute to a minimal sub-history: skip when a proper sub-history already violates
                    let mut minimal = true;
                    if ops.len() > 1 {
                        let nsub = 1usize << ops.len();
                        'subs: for mask in 1..nsub - 1 {
                            let keep: Vec<usize> = (0..ops.len()).filter(|i| mask & (1 << i) != 0).collect();
                            let (so, ss) = project(ops, &sched, &keep);
                            match run_history(&mut coord, l, &so, &ss, false) {
                                Ok(sr) => {
                                    if sr.violating_step.is_some() {
                                        minimal = false;
                                        break 'subs;
                                    }
                                }
                                Err(e) => {
                                    out.inconclusive(&e);
                                    return out;
                                }
                            }
                        }
                    }
                    if !minimal {
                        continue;
                    }
                    // ... and with minimal overlap: skip when some operation can plan right before its commit
                    // (fresh plan) and the history still violates — that order is enumerated on its own
                    for i in 0..ops.len() {
                        if ops[i].phases() != 2 {
                            continue;
                        }
                        if let Some(cs) = collapse(&sched, i) {
                            match run_history(&mut coord, l, ops, &cs, false) {
                                Ok(sr) => {
                                    if sr.violating_step.is_some() {
                                        minimal = false;
                                        break;
                                    }
                                }
                                Err(e) => {
                                    out.inconclusive(&e);
                                    return out;
                                }
                            }
                        }
                    }
                    // ... and with a minimal window: skip when an operation that acts inside the violating operation's
                    // window can run entirely before that window and the history still violates
                    if minimal {
                        let vstep = r.violating_step.unwrap_or(0);
                        let (voi, _) = sched[vstep];
                        if ops[voi].phases() == 2 {
                            if let Some(p) = sched.iter().position(|s2| *s2 == (voi, 0)) {
                                for j in 0..ops.len() {
                                    if j == voi || !sched[p + 1..vstep].iter().any(|(o, _)| *o == j) {
                                        continue;
                                    }
                                    let js: Vec<(usize, usize)> = sched.iter().filter(|(o, _)| *o == j).cloned().collect();
                                    let mut v: Vec<(usize, usize)> = sched.iter().filter(|(o, _)| *o != j).cloned().collect();
                                    let np = v.iter().position(|s2| *s2 == (voi, 0)).unwrap_or(0);
                                    for (k, st) in js.into_iter().enumerate() {
                                        v.insert(np + k, st);
                                    }
                                    match run_history(&mut coord, l, ops, &v, false) {
                                        Ok(sr) => {
                                            if sr.violating_step.is_some() {
                                                minimal = false;
                                                break;
                                            }
                                        }
                                        Err(e) => {
                                            out.inconclusive(&e);
                                            return out;
                                        }
                                    }
                                }
                            }
                        }
                    }
                    if !minimal {
                        continue;
                    }
                    out.add("a_minimal_violating_histories", 1);
                    let r = match run_history(&mut coord, l, ops, &sched, true) {
                        Ok(r) => r,
                        Err(e) => {
                            out.inconclusive(&e);
                            return out;
                        }
                    };
                    let vstep = r.violating_step.unwrap_or(0);
                    let (voi, _) = sched[vstep];
                    let inv = invalidators(ops, &sched, voi);
                    for (clause, detail) in &r.broken {
                        let inv_s: BTreeSet<String> = inv.iter().map(|k| k.to_string()).collect();
                        let sig = signature(&r.sig_kinds[voi], clause, &inv_s, r.shared[voi], &BTreeSet::new());
                        out.violation(
                            &sig,
                            "coordinator bookkeeping inconsistent after a step of this history (plan/commit phases called exactly as the REST handlers call them)",
                            json!({
                                "driver": "a (enumerated phase orders; plan_*/commit_* called directly, worker outcomes fabricated)",
                                "layout": l.name,
                                "operations": ops.iter().map(|o| o.to_json()).collect::<Vec<_>>(),
                                "operation_kinds": r.kinds,
                                "violating_operation": format!("op{} ({})", voi, r.sig_kinds[voi]),
                                "state_changes_inside_its_plan_commit_window": inv,
                                "schedule": sched.iter().map(|(oi, ph)| format!("op{}.{}", oi, if ops[*oi].phases() == 1 { "call" } else if *ph == 0 { "plan" } else { "commit" })).collect::<Vec<_>>(),
                                "trace": r.trace,
                                "violating_step": r.violating_step,
                                "broken_clause": clause,
                                "detail": detail,
                                "state_after_violating_step": r.state,
                            }),
                        );
                    }
                }
            }
            out.add("a_distinct_overlapping_orders", distinct_orders.len() as u64);
            if ti == 0 {
                let l = &ls[1];
                let ops = vec![menu(l)[1].clone(), OpSpec::Teardown { group: GroupRef::Init(0) }];
                out.sample(json!({"driver": "a", "layout": l.name, "operations": ops.iter().map(|o| o.to_json()).collect::<Vec<_>>(), "orders_executed": schedules(&ops).len()}));
            }
            out
        }
    });
    for p in parts {
        rep.merge(p);
    }
}


// =====================================================================================
// Driver (b): real handlers + gated loopback mock workers
// =====================================================================================

type Routes = warp::filters::BoxedFilter<(warp::reply::Response,)>;

#[derive(Clone, Debug, Hash, PartialEq, Eq)]
enum BOp {
    /// pipelines (name, pin, replicas) — through POST /pipeline-groups
    Deploy { group: String, pipelines: Vec<(String, Option<String>, usize)> },
    /// DELETE /pipeline-groups/{id}
    Teardown { group: GroupRef },
    /// POST /pipelines/{group}/{pipeline}/migrate
    Migrate { group: GroupRef, pipeline: String, target: String },
    /// POST /workers/{id}/drain
    Drain { worker: String },
    /// the worker goes silent; then one health-loop tick as in main.rs (sweep, failover, reconcile+rebalance if pending)
    Failover { worker: String },
    /// POST /rebalance
    Rebalance,
    /// one health-loop tick as in main.rs without anybody going silent
    Tick,
    /// POST /workers/register of a new worker id (its mock exists already)
    Register { worker: String },
    /// the worker process restarts (loses its pipelines), registers again, and one health-loop tick runs
    Restart { worker: String },
    /// DELETE /workers/{id}
    Deregister { worker: String },
    /// POST /workers/{id}/heartbeat with the mock worker's true pipeline count
    Heartbeat { worker: String },
}

impl BOp {
    fn window_capable(&self) -> bool {
        matches!(self, BOp::Deploy { .. } | BOp::Teardown { .. } | BOp::Migrate { .. })
    }
    fn to_json(&self) -> J {
        match self {
            BOp::Deploy { group, pipelines } => json!({"op": "deploy (POST pipeline-groups)", "group_name": group, "pipelines": pipelines.iter().map(|(n, w, r)| json!({"name": n, "worker_affinity": w, "replicas": r})).collect::<Vec<_>>()}),
            BOp::Teardown { group } => json!({"op": "teardown (DELETE pipeline-groups/{id})", "group": format!("{:?}", group)}),
            BOp::Migrate { group, pipeline, target } => json!({"op": "migrate (POST pipelines/{group}/{pipeline}/migrate)", "group": format!("{:?}", group), "pipeline": pipeline, "target_worker": target}),
            BOp::Drain { worker } => json!({"op": "drain (POST workers/{id}/drain)", "worker": worker}),
            BOp::Failover { worker } => json!({"op": "failover (worker silent beyond the heartbeat timeout; health-loop tick: health_sweep, handle_worker_failure, reconcile+rebalance if pending)", "worker": worker}),
            BOp::Rebalance => json!({"op": "rebalance (POST rebalance)"}),
            BOp::Tick => json!({"op": "health-loop tick (health_sweep, failover of newly unhealthy, reconcile_placements+rebalance if pending_rebalance)"}),
            BOp::Register { worker } => json!({"op": "register (POST workers/register)", "worker": worker}),
            BOp::Restart { worker } => json!({"op": "worker restart (loses its pipelines, POST workers/register again, then one health-loop tick)", "worker": worker}),
            BOp::Deregister { worker } => json!({"op": "deregister (DELETE workers/{id})", "worker": worker}),
            BOp::Heartbeat { worker } => json!({"op": "heartbeat (POST workers/{id}/heartbeat, truthful pipelines_running)", "worker": worker}),
        }
    }
}

#[derive(Clone, Copy, Debug, Hash, PartialEq, Eq)]
enum Ev {
    /// start a handler-driven operation and hold it at its first worker call (after its plan)
    Begin(usize),
    /// release it and wait for its commit
    End(usize),
    /// run an operation to completion
    Atomic(usize),
}

#[derive(Clone, Debug, Hash, PartialEq, Eq)]
struct BLayout {
    name: &'static str,
    /// workers registered before the groups are deployed
    workers_before: Vec<String>,
    /// workers registered after the groups are deployed (pending_rebalance stays set)
    workers_after: Vec<String>,
    groups: Vec<(String, Vec<(String, Option<String>, usize)>)>,
}

fn blayouts() -> Vec<BLayout> {
    let s = |x: &str| x.to_string();
    let p = |x: &str| Some(x.to_string());
    vec![
        BLayout { name: "A: w1,w2; g1{a@w1,b@w2}", workers_before: vec![s("w1"), s("w2")], workers_after: vec![], groups: vec![(s("g1"), vec![(s("a"), p("w1"), 1), (s("b"), p("w2"), 1)])] },
        BLayout {
            name: "B: w1,w2,w3; g1{a@w1,b@w2} g2{c@w1}; w3 empty",
            workers_before: vec![s("w1"), s("w2"), s("w3")],
            workers_after: vec![],
            groups: vec![(s("g1"), vec![(s("a"), p("w1"), 1), (s("b"), p("w2"), 1)]), (s("g2"), vec![(s("c"), p("w1"), 1)])],
        },
        BLayout {
            name: "R: w1 alone when g1{a,b,c unpinned} is deployed, then w2 registers (rebalance pending)",
            workers_before: vec![s("w1")],
            workers_after: vec![s("w2")],
            groups: vec![(s("g1"), vec![(s("a"), None, 1), (s("b"), None, 1), (s("c"), None, 1)])],
        },
    ]
}

#[derive(Clone, Debug, Hash, PartialEq, Eq)]
struct BCase {
    layout: usize,
    ops: Vec<BOp>,
    sched: Vec<Ev>,
    /// (worker, pipeline name) whose deploy answers HTTP 500
    fail: Vec<(String, String)>,
}

struct Env {
    ctl: Arc<gatemock::Ctl>,
    mocks: BTreeMap<String, gatemock::GateWorker>,
    coord: varpulis_cluster::SharedCoordinator,
    routes: Routes,
}

const B_TIMEOUT: Duration = Duration::from_secs(30);

async fn call(routes: &Routes, method: &str, path: &str, body: Option<J>) -> (u16, J) {
    let mut rb = warp::test::request().method(method).path(path);
    if let Some(b) = body {
        rb = rb.header("content-type", "application/json").body(serde_json::to_vec(&b).unwrap());
    }
    let r = rb.reply(routes).await;
    (r.status().as_u16(), serde_json::from_slice(r.body()).unwrap_or(J::Null))
}

fn register_body(env: &Env, w: &str) -> J {
    json!({"worker_id": w, "address": env.mocks[w].address, "api_key": "key", "capacity": {"cpu_cores": 4, "pipelines_running": 0, "max_pipelines": 100}})
}

/// One iteration of the coordinator health loop of crates/varpulis-cli/src/main.rs (non-Raft parts), under
/// the write lock for its whole duration as there. `silent`: this worker's heartbeat is older than the timeout.
async fn health_tick(env: &Env, silent: Option<&str>) -> Result<J, String> {
    let mut c = env.coord.write().await;
    c.heartbeat_timeout = Duration::from_millis(500);
    let now = Instant::now();
    let old = now.checked_sub(Duration::from_millis(800)).ok_or("monotonic clock too small to back-date a heartbeat")?;
    for (id, w) in c.workers.iter_mut() {
        // everybody else heartbeated just now (field write: a real heartbeat would also overwrite the count)
        w.last_heartbeat = if Some(id.0.as_str()) == silent { old } else { now };
    }
    let result = c.health_sweep();
    let failed = result.workers_marked_unhealthy.clone();
    for wid in &failed {
        c.handle_worker_failure(wid).await;
    }
    let _ = c.check_connector_health();
    c.cleanup_completed_migrations(Duration::from_secs(3600));
    let mut reconciled = 0;
    let mut rebalanced = 0;
    if c.pending_rebalance {
        reconciled = c.reconcile_placements().await;
        if let Ok(ids) = c.rebalance().await {
            rebalanced = ids.len();
        }
    }
    Ok(json!({"marked_unhealthy": failed.iter().map(|w| w.0.clone()).collect::<Vec<_>>(), "reconciled": reconciled, "rebalance_migrations": rebalanced}))
}

struct BRun {
    broken: Vec<(&'static str, J)>,
    kinds: Vec<String>,
    trace: Vec<J>,
    state: J,
    violating_step: Option<usize>,
    /// per held operation: base kinds of the operations that completed (with effect) inside its window
    inside: BTreeMap<usize, BTreeSet<String>>,
    violating_op: Option<usize>,
    /// held teardown/migrate operations whose pipeline names were also used by another group when they were released
    shared_at_commit: BTreeSet<usize>,
    /// at the violating step: the missing pipeline name is used by more than one group
    shared_now: bool,
    overlapped: bool,
}

fn strip_quals(kind: &str) -> String {
    kind.split('(').next().unwrap_or(kind).to_string()
}

/// kind used in the signature for the operation whose step broke the invariant
fn b_sig_kind(kind: &str) -> String {
    kind.replace("(dup-names)", "").replace("(task-failed)", "")
}

async fn run_b(env: &Env, l: &BLayout, case: &BCase) -> Result<BRun, String> {
    // ---- reset
    env.ctl.reset();
    for m in env.mocks.values() {
        m.clear();
    }
    {
        let mut c = env.coord.write().await;
        reset(&mut c);
        c.heartbeat_timeout = Duration::from_secs(3600);
    }
    // ---- layout through the real handlers (no gate, no failures)
    let mut init_gids = vec![];
    for w in &l.workers_before {
        let (st, _) = call(&env.routes, "POST", "/api/v1/cluster/workers/register", Some(register_body(env, w))).await;
        if st != 201 {
            return Err(format!("layout: register {} answered {}", w, st));
        }
    }
    for (gname, pipes) in &l.groups {
        let spec = json!({"name": gname, "pipelines": pipes.iter().map(|(n, w, r)| json!({"name": n, "source": format!("stream {}_out = E", n), "worker_affinity": w, "replicas": r})).collect::<Vec<_>>()});
        let (st, body) = call(&env.routes, "POST", "/api/v1/cluster/pipeline-groups", Some(spec)).await;
        if st != 201 {
            return Err(format!("layout: deploy {} answered {} {}", gname, st, body));
        }
        init_gids.push(body["id"].as_str().unwrap_or("").to_string());
    }
    for w in &l.workers_after {
        let (st, _) = call(&env.routes, "POST", "/api/v1/cluster/workers/register", Some(register_body(env, w))).await;
        if st != 201 {
            return Err(format!("layout: register {} answered {}", w, st));
        }
    }
    {
        let c = env.coord.read().await;
        let pre = check_invariant(&c);
        if !pre.is_empty() && !perturb("count-plus-one") {
            return Err(format!("layout itself violates the invariant: {:?}", pre));
        }
    }
    *env.ctl.fail.lock().unwrap() = case.fail.iter().cloned().collect();

    let mut run = BRun { broken: vec![], kinds: case.ops.iter().map(|_| String::new()).collect(), trace: vec![], state: J::Null, violating_step: None, inside: BTreeMap::new(), violating_op: None, shared_at_commit: BTreeSet::new(), shared_now: false, overlapped: false };
    let new_gid: Arc<Mutex<Option<String>>> = Arc::new(Mutex::new(None));
    // window bookkeeping
    let mut handles: BTreeMap<usize, tokio::task::JoinHandle<(String, J)>> = BTreeMap::new();
    let mut tickets: BTreeMap<usize, Option<u64>> = BTreeMap::new();
    let mut open: BTreeSet<usize> = BTreeSet::new();

    for (si, ev) in case.sched.iter().enumerate() {
        let mut note = J::Null;
        let mut completed: Option<usize> = None;
        match *ev {
            Ev::Begin(i) | Ev::Atomic(i) => {
                let op = case.ops[i].clone();
                let routes = env.routes.clone();
                let coord = env.coord.clone();
                let ng = new_gid.clone();
                let gids = init_gids.clone();
                let resolve = move |g: &GroupRef| -> String {
                    match g {
                        GroupRef::Init(k) => gids.get(*k).cloned().unwrap_or_else(|| "no-such-group".into()),
                        GroupRef::New => ng.lock().unwrap().clone().unwrap_or_else(|| "no-such-group".into()),
                    }
                };
                if op.window_capable() {
                    // the handler-driven operations, as tasks
                    let ng2 = new_gid.clone();
                    let fut = async move {
                        match op {
                            BOp::Deploy { group, pipelines } => {
                                let dup = {
                                    let c = coord.read().await;
                                    pipelines.iter().any(|(n, _, r)| c.pipeline_groups.values().any(|g| g.placements.keys().any(|k| k == n || (*r > 1 && k.starts_with(&format!("{}#", n))))))
                                };
                                let spec = json!({"name": group, "pipelines": pipelines.iter().map(|(n, w, r)| json!({"name": n, "source": format!("stream {}_out = E", n), "worker_affinity": w, "replicas": r})).collect::<Vec<_>>()});
                                let (st, body) = call(&routes, "POST", "/api/v1/cluster/pipeline-groups", Some(spec)).await;
                                if st == 201 {
                                    *ng2.lock().unwrap() = body["id"].as_str().map(|s| s.to_string());
                                    let failed = body["placements"].as_array().map(|a| a.iter().any(|p| p["status"] != "Running" && p["status"] != "running")).unwrap_or(false);
                                    (format!("deploy{}{}", if dup { "(dup-names)" } else { "" }, if failed { "(task-failed)" } else { "" }), json!({"status": st, "placements": body["placements"]}))
                                } else {
                                    ("deploy(refused)".to_string(), json!({"status": st, "body": body}))
                                }
                            }
                            BOp::Teardown { group } => {
                                let gid = resolve(&group);
                                let shared = {
                                    let c = coord.read().await;
                                    c.pipeline_groups.get(&gid).map(|g| g.placements.keys().any(|n| name_shared(&c, &gid, n))).unwrap_or(false)
                                };
                                let (st, body) = call(&routes, "DELETE", &format!("/api/v1/cluster/pipeline-groups/{}", gid), None).await;
                                (if st != 200 { "teardown(refused)".to_string() } else if shared { "teardown(shared-name)".to_string() } else { "teardown".to_string() }, json!({"status": st, "body": body}))
                            }
                            BOp::Migrate { group, pipeline, target } => {
                                let gid = resolve(&group);
                                let (pre, shared) = {
                                    let c = coord.read().await;
                                    (c.pipeline_groups.get(&gid).and_then(|g| g.placements.get(&pipeline)).map(|d| (d.worker_id.0.clone(), d.status.clone())).filter(|_| c.workers.contains_key(&WorkerId(target.clone()))), name_shared(&c, &gid, &pipeline))
                                };
                                let (st, body) = call(&routes, "POST", &format!("/api/v1/cluster/pipelines/{}/{}/migrate", gid, pipeline), Some(json!({"target_worker_id": target}))).await;
                                let kind = match &pre {
                                    None => "migrate(refused)".to_string(),
                                    Some((src, status)) => {
                                        let base = if *src == target {
                                            "migrate(to-same-worker)"
                                        } else if *status != PipelineDeploymentStatus::Running {
                                            "migrate(source-not-running)"
                                        } else {
                                            "migrate"
                                        };
                                        let base = if shared { format!("{}(shared-name)", base) } else { base.to_string() };
                                        if st == 202 { base } else { format!("{}(failed)", base) }
                                    }
                                };
                                (kind, json!({"status": st, "from": pre.map(|p| p.0), "body": body}))
                            }
                            _ => unreachable!(),
                        }
                    };
                    if let Ev::Begin(_) = *ev {
                        let before = env.ctl.parked_total();
                        env.ctl.arm();
                        let mut h = tokio::task::spawn_local(fut);
                        let parked = tokio::select! {
                            _ = env.ctl.wait_parked(before + 1) => true,
                            r = &mut h => {
                                // finished without any worker call (plan refused or nothing to call)
                                env.ctl.disarm();
                                let (kind, n) = r.map_err(|e| format!("operation task failed: {e}"))?;
                                run.kinds[i] = kind;
                                note = json!({"completed_without_worker_call": n});
                                completed = Some(i);
                                false
                            }
                            _ = tokio::time::sleep(B_TIMEOUT) => return Err("timeout waiting for a held operation to reach its first worker call".into()),
                        };
                        if parked {
                            let t = env.ctl.parked_tickets().last().copied();
                            tickets.insert(i, t);
                            handles.insert(i, h);
                            open.insert(i);
                            note = json!("planned; held at its first worker call");
                        } else {
                            tickets.insert(i, None);
                        }
                    } else {
                        let (kind, n) = tokio::time::timeout(B_TIMEOUT, fut).await.map_err(|_| "timeout in an operation".to_string())?;
                        run.kinds[i] = kind;
                        note = n;
                        completed = Some(i);
                    }
                } else {
                    let r: Result<(String, J), String> = tokio::time::timeout(B_TIMEOUT, async {
                        match &op {
                            BOp::Drain { worker } => {
                                let (st, body) = call(&routes, "POST", &format!("/api/v1/cluster/workers/{}/drain", worker), Some(json!({}))).await;
                                let migrated = body["pipelines_migrated"].as_u64().unwrap_or(0);
                                Ok((if st == 200 && body["status"] == "drained" { "drain".to_string() } else { "drain(refused)".to_string() }, json!({"status": st, "pipelines_migrated": migrated, "body": body})))
                            }
                            BOp::Failover { worker } => {
                                let known = coord.read().await.workers.get(&WorkerId(worker.clone())).map(|w| w.status == WorkerStatus::Ready).unwrap_or(false);
                                let n = health_tick(env, Some(worker)).await?;
                                Ok((if known { "failover".to_string() } else { "failover(refused)".to_string() }, n))
                            }
                            BOp::Tick => {
                                let pending = coord.read().await.pending_rebalance;
                                let n = health_tick(env, None).await?;
                                Ok((if pending { "tick(rebalance-pending)".to_string() } else { "tick".to_string() }, n))
                            }
                            BOp::Rebalance => {
                                let (st, body) = call(&routes, "POST", "/api/v1/cluster/rebalance", None).await;
                                let n = body["migrations_started"].as_u64().unwrap_or(0);
                                Ok((if st == 200 && n > 0 { "rebalance".to_string() } else { "rebalance(noop)".to_string() }, json!({"status": st, "migrations_started": n})))
                            }
                            BOp::Register { worker } => {
                                if coord.read().await.workers.contains_key(&WorkerId(worker.clone())) {
                                    return Ok(("register(noop)".to_string(), json!("already registered; not sent (a repeated registration is the restart operation)")));
                                }
                                let (st, _) = call(&routes, "POST", "/api/v1/cluster/workers/register", Some(register_body(env, worker))).await;
                                Ok((if st == 201 { "register".to_string() } else { "register(refused)".to_string() }, json!({"status": st})))
                            }
                            BOp::Restart { worker } => {
                                let known = coord.read().await.workers.contains_key(&WorkerId(worker.clone()));
                                env.mocks[worker].clear();
                                let (st, _) = call(&routes, "POST", "/api/v1/cluster/workers/register", Some(register_body(env, worker))).await;
                                let n = health_tick(env, None).await?;
                                Ok((if known && st == 201 { "restart".to_string() } else { "register".to_string() }, json!({"status": st, "tick": n})))
                            }
                            BOp::Deregister { worker } => {
                                let (st, _) = call(&routes, "DELETE", &format!("/api/v1/cluster/workers/{}", worker), None).await;
                                Ok((if st == 200 { "deregister".to_string() } else { "deregister(refused)".to_string() }, json!({"status": st})))
                            }
                            BOp::Heartbeat { worker } => {
                                let was_unhealthy = coord.read().await.workers.get(&WorkerId(worker.clone())).map(|w| w.status == WorkerStatus::Unhealthy).unwrap_or(false);
                                let truth = env.mocks[worker].live_count();
                                let (st, _) = call(&routes, "POST", &format!("/api/v1/cluster/workers/{}/heartbeat", worker), Some(json!({"events_processed": 0, "pipelines_running": truth}))).await;
                                Ok((if st != 200 { "heartbeat(refused)".to_string() } else if was_unhealthy { "heartbeat(recovery)".to_string() } else { "heartbeat".to_string() }, json!({"status": st, "pipelines_running_reported": truth})))
                            }
                            _ => unreachable!(),
                        }
                    })
                    .await
                    .map_err(|_| "timeout in an operation".to_string())?;
                    let (kind, n) = r?;
                    run.kinds[i] = kind;
                    note = n;
                    completed = Some(i);
                }
            }
            Ev::End(i) => {
                {
                    let c = env.coord.read().await;
                    let resolve_now = |g: &GroupRef| -> String {
                        match g {
                            GroupRef::Init(k) => init_gids.get(*k).cloned().unwrap_or_default(),
                            GroupRef::New => new_gid.lock().unwrap().clone().unwrap_or_default(),
                        }
                    };
                    let shared = match &case.ops[i] {
                        BOp::Teardown { group } => {
                            let gid = resolve_now(group);
                            c.pipeline_groups.get(&gid).map(|g| g.placements.keys().any(|n| name_shared(&c, &gid, n))).unwrap_or(false)
                        }
                        BOp::Migrate { group, pipeline, .. } => name_shared(&c, &resolve_now(group), pipeline),
                        _ => false,
                    };
                    if shared {
                        run.shared_at_commit.insert(i);
                    }
                }
                if let Some(h) = handles.remove(&i) {
                    if let Some(Some(t)) = tickets.get(&i) {
                        env.ctl.release(*t);
                    }
                    let (kind, n) = tokio::time::timeout(B_TIMEOUT, h).await.map_err(|_| "timeout waiting for a released operation".to_string())?.map_err(|e| format!("operation task failed: {e}"))?;
                    run.kinds[i] = kind;
                    note = json!({"released": n});
                    open.remove(&i);
                    completed = Some(i);
                } else {
                    note = json!("already completed");
                }
            }
        }
        if let Some(ci) = completed {
            // a completed, not refused operation is a state change inside every window still open
            let effective = !run.kinds[ci].ends_with("(refused)") && !run.kinds[ci].ends_with("(noop)");
            if effective {
                for o in &open {
                    if *o != ci {
                        let k = strip_quals(&run.kinds[ci]);
                        run.inside.entry(*o).or_default().insert(k);
                        run.overlapped = true;
                    }
                }
            }
        }
        run.trace.push(json!({"step": si, "event": format!("{:?}", ev), "note": note}));
        let c = env.coord.read().await;
        let broken = check_invariant(&c);
        if !broken.is_empty() {
            run.shared_now = broken.iter().any(|(cl, d)| *cl == "missing-assignment" && d["pipeline"].as_str().map(|n| c.pipeline_groups.values().filter(|g| g.placements.contains_key(n)).count() > 1).unwrap_or(false));
            run.broken = broken;
            run.violating_step = Some(si);
            run.violating_op = Some(match *ev {
                Ev::Begin(i) | Ev::End(i) | Ev::Atomic(i) => i,
            });
            run.state = json!({"coordinator": dump(&c), "mock_workers_truth": env.mocks.iter().map(|(k, m)| (k.clone(), json!(m.live_names()))).collect::<BTreeMap<_, _>>()});
            break;
        }
    }
    // let every held operation finish before the next case
    env.ctl.release_all();
    for (_, h) in handles {
        let _ = tokio::time::timeout(B_TIMEOUT, h).await;
    }
    Ok(run)
}

/// Signature of a violation (finite enumerations only): kind of the operation whose step broke the invariant,
/// the classes of state change that fell inside its plan..commit window, the broken clause.
fn signature(vkind: &str, clause: &str, inv: &BTreeSet<String>, shared: bool, other_kinds: &BTreeSet<String>) -> String {
    let base = strip_quals(vkind);
    // bare pipeline names in assigned_pipelines: a name used by two groups is one root cause whatever the entry point
    if clause == "missing-assignment" && shared {
        let k = if ["drain", "failover", "rebalance", "tick", "restart"].contains(&base.as_str()) { "auto-migration".to_string() } else { base };
        return format!("{}(shared-name)/{}", k, clause);
    }
    let vkind = vkind.replace("(shared-name)", "");
    if vkind.starts_with("heartbeat") {
        // a truthful heartbeat only reveals what earlier operations left behind
        if vkind.contains("(recovery)") {
            return format!("{}/{}", vkind, clause);
        }
        let after = if other_kinds.contains("restart") {
            "restart".to_string()
        } else if other_kinds.contains("failover") {
            "failover".to_string()
        } else {
            other_kinds.iter().cloned().collect::<Vec<_>>().join("+")
        };
        return format!("{}-after:{}/{}", vkind, after, clause);
    }
    // self-contained defects of a migration, each with its characteristic clause
    if vkind.contains("(to-same-worker)") && clause == "missing-assignment" {
        return format!("migrate(to-same-worker)/{}", clause);
    }
    if vkind.contains("(source-not-running)") && clause == "running-count" {
        return format!("migrate(source-not-running)/{}", clause);
    }
    let vkind = if vkind.starts_with("migrate(") { "migrate".to_string() } else { vkind };
    // operations that only enable the others (create a group, add a worker) do not invalidate a plan by themselves
    let enabling = ["deploy", "register", "heartbeat", "other"];
    let mut inv: BTreeSet<String> = inv.iter().map(|k| if k == "drain" { if clause == "orphaned-running-placement" { "worker-removal".to_string() } else { "migration".to_string() } } else { k.clone() }).collect();
    if inv.iter().any(|k| !enabling.contains(&k.as_str())) {
        inv.retain(|k| !enabling.contains(&k.as_str()));
    }
    if inv.is_empty() {
        format!("{}/{}", vkind, clause)
    } else {
        format!("{}/stale-after:{}/{}", vkind, inv.iter().cloned().collect::<Vec<_>>().join("+"), clause)
    }
}

/// For minimisation: a candidate counts as violating if one of two executions violates (target choice among
/// equally loaded workers follows HashMap order inside the coordinator).
async fn run_b_twice(env: &Env, l: &BLayout, case: &BCase) -> Result<BRun, String> {
    let r = run_b(env, l, case).await?;
    if r.violating_step.is_some() {
        return Ok(r);
    }
    run_b(env, l, case).await
}

fn gen_bcase(rng: &mut Rng, ls: &[BLayout]) -> BCase {
    let li = rng.below(ls.len());
    let l = &ls[li];
    let mut workers: Vec<String> = l.workers_before.iter().chain(l.workers_after.iter()).cloned().collect();
    let all_workers = workers.clone();
    workers.push("w9".into());
    let placements: Vec<(usize, String)> = l.groups.iter().enumerate().flat_map(|(gi, (_, ps))| ps.iter().map(move |(n, _, r)| (gi, if *r > 1 { format!("{}#0", n) } else { n.clone() }))).collect();
    let nops = 2 + rng.below(3);
    let mut ops = vec![];
    for _ in 0..nops {
        let w = rng.pick(&all_workers).clone();
        let op = match rng.below(20) {
            0..=2 => {
                // always pinned: an unpinned deploy goes through RoundRobin over HashMap order (not reproducible)
                let pin = Some(rng.pick(&all_workers).clone());
                let k = ops.len();
                let mut ps = vec![(format!("d{}", k), pin, 1)];
                if rng.chance(1, 3) {
                    ps.push((format!("e{}", k), Some(rng.pick(&all_workers).clone()), 1));
                }
                if rng.chance(1, 10) {
                    ps[0].0 = placements[0].1.split('#').next().unwrap().to_string();
                }
                BOp::Deploy { group: format!("gn{}", k), pipelines: ps }
            }
            3..=5 => BOp::Teardown { group: if rng.chance(1, 5) { GroupRef::New } else { GroupRef::Init(rng.below(l.groups.len())) } },
            6..=9 => {
                let last_deploy = ops.iter().enumerate().rev().find_map(|(k, o)| if let BOp::Deploy { pipelines, .. } = o { Some((k, pipelines[0].0.clone())) } else { None });
                if let (Some((_, dn)), true) = (last_deploy, rng.chance(1, 4)) {
                    BOp::Migrate { group: GroupRef::New, pipeline: dn, target: w }
                } else {
                    let (gi, p) = rng.pick(&placements).clone();
                    BOp::Migrate { group: GroupRef::Init(gi), pipeline: p, target: w }
                }
            }
            10..=11 => BOp::Drain { worker: w },
            12..=13 => BOp::Failover { worker: w },
            14 => BOp::Rebalance,
            15 => BOp::Tick,
            16 => BOp::Register { worker: "w9".into() },
            17 => BOp::Restart { worker: w },
            18 => BOp::Deregister { worker: w },
            _ => BOp::Heartbeat { worker: w },
        };
        ops.push(op);
    }
    // schedule: up to two handler-driven operations are held open across what follows
    let mut sched = vec![];
    let mut open: Vec<usize> = vec![];
    let mut windows = 0;
    for i in 0..ops.len() {
        if ops[i].window_capable() && windows < 2 && i + 1 < ops.len() && rng.chance(3, 4) {
            sched.push(Ev::Begin(i));
            open.push(i);
            windows += 1;
        } else {
            sched.push(Ev::Atomic(i));
        }
        // maybe close a window now
        while !open.is_empty() && open.iter().any(|o| *o != i) && rng.chance(1, 3) {
            let k = rng.below(open.len());
            if open[k] == i {
                break;
            }
            sched.push(Ev::End(open.remove(k)));
        }
    }
    while !open.is_empty() {
        let k = rng.below(open.len());
        sched.push(Ev::End(open.remove(k)));
    }
    let mut fail = vec![];
    if rng.chance(1, 4) {
        let mut names: Vec<String> = vec!["a".into(), "b".into(), "c".into()];
        for o in &ops {
            if let BOp::Deploy { pipelines, .. } = o {
                for (n, _, _) in pipelines {
                    names.push(n.clone());
                }
            }
        }
        fail.push((rng.pick(&workers).clone(), rng.pick(&names).clone()));
    }
    BCase { layout: li, ops, sched, fail }
}

fn drop_op(case: &BCase, i: usize) -> BCase {
    let mut c = case.clone();
    c.ops.remove(i);
    c.sched = case
        .sched
        .iter()
        .filter_map(|e| {
            let f = |k: usize| if k > i { k - 1 } else { k };
            match *e {
                Ev::Begin(k) if k != i => Some(Ev::Begin(f(k))),
                Ev::End(k) if k != i => Some(Ev::End(f(k))),
                Ev::Atomic(k) if k != i => Some(Ev::Atomic(f(k))),
                _ => None,
            }
        })
        .collect();
    c
}

fn collapse_window(case: &BCase, i: usize) -> Option<BCase> {
    if !case.sched.contains(&Ev::Begin(i)) {
        return None;
    }
    let mut c = case.clone();
    c.sched = case
        .sched
        .iter()
        .filter_map(|e| match *e {
            Ev::Begin(k) if k == i => Some(Ev::Atomic(i)),
            Ev::End(k) if k == i => None,
            other => Some(other),
        })
        .collect();
    Some(c)
}

fn driver_b(args: &Args, rep: &mut Report) {
    let threads = ncpu().min(8);
    let budget = Duration::from_secs(args.pick(8, 240));
    let max_cases: u64 = args.pick(1500, 60000);
    let parts = parallel(threads, args.seed ^ 0xB0B, move |ti, mut rng| {
        let mut out = Partial::default();
        let rt = match tokio::runtime::Builder::new_current_thread().enable_all().build() {
            Ok(rt) => rt,
            Err(e) => {
                out.inconclusive(&format!("driver b: tokio runtime: {e}"));
                return out;
            }
        };
        let local = tokio::task::LocalSet::new();
        local.block_on(&rt, async {
            let ctl = gatemock::Ctl::new();
            let mut mocks = BTreeMap::new();
            for w in ["w1", "w2", "w3", "w9"] {
                match gatemock::spawn_gate_worker(w, ctl.clone()) {
                    Ok(m) => {
                        mocks.insert(w.to_string(), m);
                    }
                    Err(e) => {
                        out.inconclusive(&format!("driver b: {e}"));
                        return;
                    }
                }
            }
            let coord = varpulis_cluster::shared_coordinator();
            let routes: Routes = {
                use warp::Filter;
                varpulis_cluster::cluster_routes(coord.clone(), Arc::new(varpulis_cluster::RbacConfig::disabled()), None).map(|r| warp::Reply::into_response(r)).boxed()
            };
            let env = Env { ctl, mocks, coord, routes };
            let ls = blayouts();
            let start = Instant::now();
            let mut n = 0u64;
            while start.elapsed() < budget && n < max_cases {
                n += 1;
                let case = gen_bcase(&mut rng, &ls);
                let l = &ls[case.layout];
                out.eval();
                let r = match run_b(&env, l, &case).await {
                    Ok(r) => r,
                    Err(e) => {
                        out.inconclusive(&format!("driver b: {e}"));
                        return;
                    }
                };
                out.add("b_histories", 1);
                out.add("b_worker_calls", 0);
                if r.overlapped {
                    out.nontrivial(&case);
                    out.add("b_histories_with_overlap", 1);
                }
                if n == 1 && ti == 0 {
                    out.sample(json!({"driver": "b", "layout": l.name, "operations": case.ops.iter().map(|o| o.to_json()).collect::<Vec<_>>(), "schedule": case.sched.iter().map(|e| format!("{:?}", e)).collect::<Vec<_>>(), "failing_deploys": case.fail, "kinds_observed": r.kinds}));
                }
                if r.violating_step.is_none() {
                    continue;
                }
                out.add("b_violating_histories", 1);
                // ---- minimise: drop operations / collapse windows while some violation persists
                let mut cur = case.clone();
                let mut cur_run = r;
                // operations never started before the violation are irrelevant
                loop {
                    let mut progressed = false;
                    let mut i = 0;
                    while i < cur.ops.len() {
                        if cur.ops.len() == 1 {
                            break;
                        }
                        let cand = drop_op(&cur, i);
                        match run_b_twice(&env, l, &cand).await {
                            Ok(rr) if rr.violating_step.is_some() => {
                                cur = cand;
                                cur_run = rr;
                                progressed = true;
                            }
                            Ok(_) => i += 1,
                            Err(e) => {
                                out.inconclusive(&format!("driver b (minimising): {e}"));
                                return;
                            }
                        }
                    }
                    for i in 0..cur.ops.len() {
                        if let Some(cand) = collapse_window(&cur, i) {
                            match run_b_twice(&env, l, &cand).await {
                                Ok(rr) if rr.violating_step.is_some() => {
                                    cur = cand;
                                    cur_run = rr;
                                    progressed = true;
                                }
                                Ok(_) => {}
                                Err(e) => {
                                    out.inconclusive(&format!("driver b (minimising): {e}"));
                                    return;
                                }
                            }
                        }
                    }
                    // an operation that ran inside a held operation's window: try it before that window
                    'mv: for i in 0..cur.ops.len() {
                        let (Some(b), Some(e)) = (cur.sched.iter().position(|x| *x == Ev::Begin(i)), cur.sched.iter().position(|x| *x == Ev::End(i))) else { continue };
                        for j in 0..cur.ops.len() {
                            if j == i {
                                continue;
                            }
                            let is_j = |x: &Ev| matches!(*x, Ev::Begin(k) | Ev::End(k) | Ev::Atomic(k) if k == j);
                            if !cur.sched[b + 1..e].iter().any(|x| is_j(x)) {
                                continue;
                            }
                            let mut cand = cur.clone();
                            let mut v: Vec<Ev> = cur.sched.iter().filter(|x| !is_j(x)).cloned().collect();
                            let nb = v.iter().position(|x| *x == Ev::Begin(i)).unwrap_or(0);
                            v.insert(nb, Ev::Atomic(j));
                            cand.sched = v;
                            match run_b_twice(&env, l, &cand).await {
                                Ok(rr) if rr.violating_step.is_some() => {
                                    cur = cand;
                                    cur_run = rr;
                                    progressed = true;
                                    break 'mv;
                                }
                                Ok(_) => {}
                                Err(e) => {
                                    out.inconclusive(&format!("driver b (minimising): {e}"));
                                    return;
                                }
                            }
                        }
                    }
                    if !cur.fail.is_empty() {
                        let mut cand = cur.clone();
                        cand.fail.clear();
                        if let Ok(rr) = run_b_twice(&env, l, &cand).await {
                            if rr.violating_step.is_some() {
                                cur = cand;
                                cur_run = rr;
                                progressed = true;
                            }
                        }
                    }
                    if !progressed {
                        break;
                    }
                }
                let voi = cur_run.violating_op.unwrap_or(0);
                let vkind = b_sig_kind(&cur_run.kinds[voi]);
                let inv: BTreeSet<String> = cur_run.inside.get(&voi).map(|s| s.iter().map(|k| inv_class(k).to_string()).collect()).unwrap_or_default();
                // bare pipeline names in assigned_pipelines: a name used by two groups is one root cause whatever the entry point
                let shared = cur_run.shared_at_commit.contains(&voi) || cur_run.shared_now || cur_run.kinds[voi].contains("(shared-name)");
                let other_kinds: BTreeSet<String> = cur_run.kinds.iter().enumerate().filter(|(i, k)| *i != voi && !k.is_empty()).map(|(_, k)| strip_quals(k)).collect();
                for (clause, detail) in &cur_run.broken {
                    let sig = signature(&vkind, clause, &inv, shared, &other_kinds);
                    out.violation(
                        &sig,
                        "coordinator bookkeeping inconsistent after a step of this history (real REST handlers / drain / failover / rebalance against loopback mock workers)",
                        json!({
                            "driver": "b (real handlers via warp::test, real HTTP to gated mock workers; Begin(i) = operation i planned and held at its first worker call, End(i) = released and committed)",
                            "layout": l.name,
                            "operations": cur.ops.iter().map(|o| o.to_json()).collect::<Vec<_>>(),
                            "operation_kinds": cur_run.kinds,
                            "violating_operation": format!("op{} ({})", voi, vkind),
                            "state_changes_inside_its_plan_commit_window": inv,
                            "schedule": cur.sched.iter().map(|e| format!("{:?}", e)).collect::<Vec<_>>(),
                            "failing_deploys (worker, pipeline)": cur.fail,
                            "trace": cur_run.trace,
                            "violating_step": cur_run.violating_step,
                            "broken_clause": clause,
                            "detail": detail,
                            "state_after_violating_step": cur_run.state,
                            "generated_history_before_minimisation": {"operations": case.ops.iter().map(|o| o.to_json()).collect::<Vec<_>>(), "schedule": case.sched.iter().map(|e| format!("{:?}", e)).collect::<Vec<_>>()},
                        }),
                    );
                }
            }
            out.add("b_worker_calls", env.ctl.calls.load(Ordering::SeqCst));
        });
        out
    });
    for p in parts {
        rep.merge(p);
    }
}

fn main() {
    install_quiet_panic_hook();
    let args = Args::parse();
    if let Some(p) = args.opt("--perturb") {
        let _ = PERTURB.set(p);
    }
    watchdog("C32", args.pick(240, 3600));
    let mut rep = Report::new("C32", "exploration", &args);
    rep.rule = "driver a: every single operation, every pair and (quick: every 8th while a 6 s budget lasts, thorough: every) triple of operations from a per-layout menu \
(deploy x every per-task outcome, teardown, manual migration x both outcomes x every target worker, deregister, register) in every order of their plan/commit phases, \
on 3 layouts (2-3 workers, 1-2 groups); non-trivial = >=2 operations where one's state change falls inside the other's plan..commit window and both touch a common worker, \
distinct by (layout, operations, order). driver b: real REST handlers / drain / failover / rebalance against gated loopback mock workers."
        .into();
    rep.assume("plan_*/commit_* called back-to-back are what the REST handlers do under the coordinator RwLock (read lock for plan, write lock for commit); checked against api.rs by reading");
    rep.assume("driver a fabricates worker outcomes as DeployTaskResult / migrate success flags; no heartbeat is interleaved there (a heartbeat overwrites pipelines_running with the worker's own count)");
    if !args.has_flag("--only-b") {
        driver_a(&args, &mut rep);
    }
    if !args.has_flag("--only-a") {
        driver_b(&args, &mut rep);
    }
    std::process::exit(rep.finish());
}
