//! Shadow model for the ZDD library (C06, C07): explicit families of sets, updated in
//! lock-step with the three real APIs (`Zdd`, `ZddArena`, `SharedArena`).

use crate::{Partial, Rng};
use serde_json::{json, Value as J};
use std::collections::{BTreeMap, BTreeSet};
use varpulis_zdd::{SharedArena, Zdd, ZddArena, ZddHandle, ZddRef};

pub type Set = BTreeSet<u32>;
pub type Family = BTreeSet<Set>;

pub fn fam_json(f: &Family) -> J {
    json!(f.iter().map(|s| s.iter().copied().collect::<Vec<_>>()).collect::<Vec<_>>())
}

pub fn all_subsets(nvars: u32) -> Vec<Vec<u32>> {
    (0u32..(1 << nvars))
        .map(|m| (0..nvars).filter(|v| m & (1 << v) != 0).collect())
        .collect()
}

/// Family number `idx` over `nvars` variables: bit j of idx says whether subset j is a member.
pub fn family_from_index(nvars: u32, idx: u64) -> Family {
    let subs = all_subsets(nvars);
    subs.iter()
        .enumerate()
        .filter(|(j, _)| idx & (1u64 << j) != 0)
        .map(|(_, s)| s.iter().copied().collect())
        .collect()
}

#[derive(Clone, Copy, Debug, PartialEq, Eq, Hash, PartialOrd, Ord)]
pub enum BinOp {
    Union,
    Intersection,
    Difference,
    Product,
}

impl BinOp {
    pub fn name(&self) -> &'static str {
        match self {
            BinOp::Union => "union",
            BinOp::Intersection => "intersection",
            BinOp::Difference => "difference",
            BinOp::Product => "product",
        }
    }
    pub fn model(&self, a: &Family, b: &Family) -> Family {
        match self {
            BinOp::Union => a.union(b).cloned().collect(),
            BinOp::Intersection => a.intersection(b).cloned().collect(),
            BinOp::Difference => a.difference(b).cloned().collect(),
            BinOp::Product => {
                let mut r = Family::new();
                for x in a {
                    for y in b {
                        r.insert(x.union(y).copied().collect());
                    }
                }
                r
            }
        }
    }
}

pub fn model_pwo(a: &Family, v: u32) -> Family {
    let mut r = a.clone();
    for s in a {
        let mut t = s.clone();
        t.insert(v);
        r.insert(t);
    }
    r
}

/// One logical family held in all three real representations plus the model.
#[derive(Clone)]
pub struct Slot {
    pub model: Family,
    pub zdd: Zdd,
    pub h: ZddHandle,
    pub sh: ZddHandle,
    /// how it was constructed (short text, for witnesses)
    pub how: String,
}

pub struct World {
    pub nvars: u32,
    pub arena: ZddArena,
    pub shared: SharedArena,
    pub slots: Vec<Slot>,
    pub log: Vec<String>,
    pub gcs: u64,
    pub gc_dropped_nodes: u64,
}

fn to_family(sets: impl IntoIterator<Item = Vec<u32>>) -> (Family, bool, bool) {
    // returns (family, had_duplicate_member, had_unsorted_or_repeated_elements)
    let mut f = Family::new();
    let mut dup = false;
    let mut unsorted = false;
    for s in sets {
        if s.windows(2).any(|w| w[0] >= w[1]) {
            unsorted = true;
        }
        if !f.insert(s.into_iter().collect()) {
            dup = true;
        }
    }
    (f, dup, unsorted)
}

impl World {
    pub fn new(nvars: u32) -> World {
        World {
            nvars,
            arena: ZddArena::new(),
            shared: SharedArena::new(),
            slots: vec![],
            log: vec![],
            gcs: 0,
            gc_dropped_nodes: 0,
        }
    }

    pub fn push_atom(&mut self, kind: usize, elems: &[u32]) -> usize {
        let (model, zdd, h, sh, how): (Family, Zdd, ZddHandle, ZddHandle, String) = match kind {
            0 => (Family::new(), Zdd::empty(), self.arena.empty(), self.shared.empty(), "empty".into()),
            1 => {
                let mut f = Family::new();
                f.insert(Set::new());
                (f, Zdd::base(), self.arena.base(), self.shared.base(), "base".into())
            }
            2 => {
                let v = elems.first().copied().unwrap_or(0);
                let mut f = Family::new();
                f.insert([v].into_iter().collect());
                (f, Zdd::singleton(v), self.arena.singleton(v), self.shared.singleton(v), format!("singleton({})", v))
            }
            _ => {
                let mut f = Family::new();
                f.insert(elems.iter().copied().collect());
                (f, Zdd::from_set(elems), self.arena.from_set(elems), self.shared.from_set(elems), format!("from_set({:?})", elems))
            }
        };
        self.log.push(format!("s{} = {}", self.slots.len(), how));
        self.slots.push(Slot { model, zdd, h, sh, how });
        self.slots.len() - 1
    }

    /// Build the family `f` in the given construction style (0: union of from_set in
    /// order, 1: reverse order, 2: via difference from a superset, 3: intersection of supersets).
    pub fn push_family(&mut self, f: &Family, style: usize) -> usize {
        let members: Vec<Vec<u32>> = f.iter().map(|s| s.iter().copied().collect()).collect();
        let mut order: Vec<usize> = (0..members.len()).collect();
        if style == 1 {
            order.reverse();
        }
        let mut zdd = Zdd::empty();
        let mut h = self.arena.empty();
        let mut sh = self.shared.empty();
        for &i in &order {
            let m = &members[i];
            zdd = zdd.union(&Zdd::from_set(m));
            let hm = self.arena.from_set(m);
            h = self.arena.union(h, hm);
            let shm = self.shared.from_set(m);
            sh = self.shared.union(sh, shm);
        }
        self.log.push(format!("s{} = build{}({})", self.slots.len(), style, fam_json(f)));
        self.slots.push(Slot { model: f.clone(), zdd, h, sh, how: format!("build{}", style) });
        self.slots.len() - 1
    }

    pub fn binop(&mut self, op: BinOp, a: usize, b: usize) -> usize {
        let (sa, sb) = (self.slots[a].clone(), self.slots[b].clone());
        let model = op.model(&sa.model, &sb.model);
        let (zdd, h, sh) = match op {
            BinOp::Union => (sa.zdd.union(&sb.zdd), self.arena.union(sa.h, sb.h), self.shared.union(sa.sh, sb.sh)),
            BinOp::Intersection => (
                sa.zdd.intersection(&sb.zdd),
                self.arena.intersection(sa.h, sb.h),
                self.shared.intersection(sa.sh, sb.sh),
            ),
            BinOp::Difference => (
                sa.zdd.difference(&sb.zdd),
                self.arena.difference(sa.h, sb.h),
                self.shared.difference(sa.sh, sb.sh),
            ),
            BinOp::Product => {
                // arenas have no general product: keep the arena/shared handles in step by
                // rebuilding the model family through unions (not an observation of product).
                let z = sa.zdd.product(&sb.zdd);
                let mut h = self.arena.empty();
                let mut sh = self.shared.empty();
                for m in &model {
                    let v: Vec<u32> = m.iter().copied().collect();
                    let hm = self.arena.from_set(&v);
                    h = self.arena.union(h, hm);
                    let shm = self.shared.from_set(&v);
                    sh = self.shared.union(sh, shm);
                }
                (z, h, sh)
            }
        };
        self.log.push(format!("s{} = {}(s{}, s{})", self.slots.len(), op.name(), a, b));
        self.slots.push(Slot { model, zdd, h, sh, how: op.name().into() });
        self.slots.len() - 1
    }

    pub fn pwo(&mut self, a: usize, v: u32) -> usize {
        let sa = self.slots[a].clone();
        let model = model_pwo(&sa.model, v);
        let zdd = sa.zdd.product_with_optional(v);
        let h = self.arena.product_with_optional(sa.h, v);
        let sh = self.shared.product_with_optional(sa.sh, v);
        self.log.push(format!("s{} = product_with_optional(s{}, {})", self.slots.len(), a, v));
        self.slots.push(Slot { model, zdd, h, sh, how: "product_with_optional".into() });
        self.slots.len() - 1
    }

    /// gc both arenas keeping exactly the slots in `keep` (others are removed from the world).
    pub fn gc(&mut self, keep: &[usize]) {
        let keep_set: BTreeSet<usize> = keep.iter().copied().collect();
        let kept: Vec<Slot> = self
            .slots
            .iter()
            .enumerate()
            .filter(|(i, _)| keep_set.contains(i))
            .map(|(_, s)| s.clone())
            .collect();
        let hs: Vec<ZddHandle> = kept.iter().map(|s| s.h).collect();
        let shs: Vec<ZddHandle> = kept.iter().map(|s| s.sh).collect();
        let (st, nh) = self.arena.gc(&hs);
        let (_st2, nsh) = self.shared.gc(&shs);
        self.gcs += 1;
        self.gc_dropped_nodes += (st.nodes_before - st.nodes_after) as u64;
        self.log.push(format!(
            "gc(keep={:?}) nodes {}->{}",
            keep_set.iter().collect::<Vec<_>>(),
            st.nodes_before,
            st.nodes_after
        ));
        self.slots = kept
            .into_iter()
            .enumerate()
            .map(|(i, mut s)| {
                s.h = nh[i];
                s.sh = nsh[i];
                s
            })
            .collect();
    }

    /// C06 observation of one slot through every query API. `op` names the operation
    /// that produced it (signature component). Returns the number of comparisons made.
    pub fn check_slot_algebra(&mut self, idx: usize, op: &str, phase: &str, out: &mut Partial) -> u64 {
        let before = out.violations.len() + out.counters.iter().filter(|(k, _)| k.starts_with("__sig:")).map(|(_, v)| *v as usize).sum::<usize>();
        let n = self.check_slot_algebra_inner(idx, op, phase, out);
        let after = out.violations.len() + out.counters.iter().filter(|(k, _)| k.starts_with("__sig:")).map(|(_, v)| *v as usize).sum::<usize>();
        if after != before {
            // Repair: rebuild every representation of this slot from the model, so that a wrong
            // result is reported once, at the operation that produced it, and does not cascade.
            let f = self.slots[idx].model.clone();
            let how = self.slots[idx].how.clone();
            let j = self.push_family(&f, 0);
            let mut fresh = self.slots.pop().expect("slot");
            self.log.pop();
            fresh.how = how;
            self.slots[idx] = fresh;
            let _ = j;
        }
        n
    }

    fn check_slot_algebra_inner(&mut self, idx: usize, op: &str, phase: &str, out: &mut Partial) -> u64 {
        let s = self.slots[idx].clone();
        let subs = all_subsets(self.nvars.max(1));
        let mut n = 0u64;
        let want = &s.model;
        let wit = |w: &World, api: &str, observer: &str, got: J| -> J {
            json!({"api": api, "op": op, "observer": observer, "phase": phase,
                   "expected_family": fam_json(want), "observed": got,
                   "slot": idx, "history": w.log.clone()})
        };
        // --- standalone Zdd
        {
            let (got, dup, _uns) = to_family(s.zdd.iter());
            n += 1;
            if &got != want || dup {
                out.violation(&format!("zdd/{}/iter", op), "standalone Zdd family differs from explicit sets", wit(self, "zdd", "iter", fam_json(&got)));
            }
            let (got2, _, _) = to_family(s.zdd.to_sets());
            n += 1;
            if &got2 != want {
                out.violation(&format!("zdd/{}/to_sets", op), "Zdd::to_sets differs from explicit sets", wit(self, "zdd", "to_sets", fam_json(&got2)));
            }
            n += 1;
            if s.zdd.count() != want.len() {
                out.violation(&format!("zdd/{}/count", op), "Zdd::count differs from explicit sets", wit(self, "zdd", "count", json!(s.zdd.count())));
            }
            for sub in &subs {
                n += 1;
                let m: Set = sub.iter().copied().collect();
                if s.zdd.contains(sub) != want.contains(&m) {
                    out.violation(&format!("zdd/{}/contains", op), "Zdd::contains differs from explicit sets", wit(self, "zdd", "contains", json!({"set": sub, "got": s.zdd.contains(sub)})));
                    break;
                }
            }
            n += 1;
            if s.zdd.is_empty() != want.is_empty() {
                out.violation(&format!("zdd/{}/is_empty", op), "Zdd::is_empty differs", wit(self, "zdd", "is_empty", json!(s.zdd.is_empty())));
            }
        }
        // --- arena
        {
            let (got, dup, _) = to_family(self.arena.iter(s.h));
            n += 1;
            if &got != want || dup {
                out.violation(&format!("arena/{}/iter", op), "ZddArena family differs from explicit sets", wit(self, "arena", "iter", fam_json(&got)));
            }
            n += 2;
            let c = self.arena.count(s.h);
            if c != want.len() {
                out.violation(&format!("arena/{}/count", op), "ZddArena::count differs from explicit sets", wit(self, "arena", "count", json!(c)));
            }
            let cu = self.arena.count_uncached(s.h);
            if cu != want.len() {
                out.violation(&format!("arena/{}/count_uncached", op), "ZddArena::count_uncached differs", wit(self, "arena", "count_uncached", json!(cu)));
            }
            for sub in &subs {
                n += 2;
                let m: Set = sub.iter().copied().collect();
                let mut rev = sub.clone();
                rev.reverse();
                if self.arena.contains(s.h, &rev) != want.contains(&m) {
                    out.violation(&format!("arena/{}/contains", op), "ZddArena::contains differs", wit(self, "arena", "contains", json!({"set": rev})));
                    break;
                }
                if self.arena.contains_sorted(s.h, sub) != want.contains(&m) {
                    out.violation(&format!("arena/{}/contains_sorted", op), "ZddArena::contains_sorted differs", wit(self, "arena", "contains_sorted", json!({"set": sub})));
                    break;
                }
            }
        }
        // --- shared arena (no iterator: membership over the whole universe is complete)
        {
            n += 2;
            let c = self.shared.count(s.sh);
            if c != want.len() {
                out.violation(&format!("shared/{}/count", op), "SharedArena::count differs", wit(self, "shared", "count", json!(c)));
            }
            let cc = self.shared.count_cached(s.sh);
            if cc != want.len() {
                out.violation(&format!("shared/{}/count_cached", op), "SharedArena::count_cached differs", wit(self, "shared", "count_cached", json!(cc)));
            }
            let mut got = Family::new();
            for sub in &subs {
                n += 1;
                if self.shared.contains(s.sh, sub) {
                    got.insert(sub.iter().copied().collect());
                }
                let m: Set = sub.iter().copied().collect();
                if self.shared.contains_sorted(s.sh, sub) != want.contains(&m) {
                    out.violation(&format!("shared/{}/contains_sorted", op), "SharedArena::contains_sorted differs", wit(self, "shared", "contains_sorted", json!({"set": sub})));
                    break;
                }
            }
            if &got != want {
                out.violation(&format!("shared/{}/contains", op), "SharedArena membership differs from explicit sets", wit(self, "shared", "contains", fam_json(&got)));
            }
        }
        n
    }

    /// C07: canonicity across all live slots + reducedness/ordering of every stored node +
    /// iteration discipline. Returns number of checks.
    pub fn check_canonical(&mut self, phase: &str, out: &mut Partial) -> u64 {
        let mut n = 0u64;
        // (i) equal family <=> equal root, in each arena
        let mut by_model: BTreeMap<Family, (usize, ZddRef, ZddRef)> = BTreeMap::new();
        let mut by_root_a: BTreeMap<ZddRef, usize> = BTreeMap::new();
        let mut by_root_s: BTreeMap<ZddRef, usize> = BTreeMap::new();
        for (i, s) in self.slots.iter().enumerate() {
            n += 1;
            if let Some((j, ra, rs)) = by_model.get(&s.model) {
                if *ra != s.h.root() {
                    out.violation(
                        &format!("arena/canonicity/equal-family-different-root/{}", phase),
                        "two live handles of one arena denote the same family but have different roots",
                        json!({"slot_a": j, "slot_b": i, "family": fam_json(&s.model), "how_a": self.slots[*j].how, "how_b": s.how, "history": self.log}),
                    );
                }
                if *rs != s.sh.root() {
                    out.violation(
                        &format!("shared/canonicity/equal-family-different-root/{}", phase),
                        "two live handles of one shared arena denote the same family but have different roots",
                        json!({"slot_a": j, "slot_b": i, "family": fam_json(&s.model), "history": self.log}),
                    );
                }
            } else {
                by_model.insert(s.model.clone(), (i, s.h.root(), s.sh.root()));
            }
            if let Some(j) = by_root_a.get(&s.h.root()) {
                if self.slots[*j].model != s.model {
                    out.violation(
                        &format!("arena/canonicity/different-family-equal-root/{}", phase),
                        "two live handles with the same root denote different families (stale handle or bad remap)",
                        json!({"slot_a": j, "slot_b": i, "family_a": fam_json(&self.slots[*j].model), "family_b": fam_json(&s.model), "history": self.log}),
                    );
                }
            } else {
                by_root_a.insert(s.h.root(), i);
            }
            if let Some(j) = by_root_s.get(&s.sh.root()) {
                if self.slots[*j].model != s.model {
                    out.violation(
                        &format!("shared/canonicity/different-family-equal-root/{}", phase),
                        "two live shared handles with the same root denote different families",
                        json!({"slot_a": j, "slot_b": i, "history": self.log}),
                    );
                }
            } else {
                by_root_s.insert(s.sh.root(), i);
            }
        }
        // (ii) stored nodes reduced + ordered
        #[cfg(varpulis_verif)]
        {
            let nodes = self.arena.verif_nodes();
            n += check_nodes(&nodes, "arena", phase, &self.log, out);
            // uniqueness of (var,lo,hi) in the table
            let mut seen = BTreeSet::new();
            for nd in &nodes {
                if !seen.insert((nd.var, nd.lo, nd.hi)) {
                    out.violation(
                        &format!("arena/table/duplicate-node/{}", phase),
                        "unique table stores the same (var,lo,hi) twice",
                        json!({"node": format!("{:?}", nd), "history": self.log}),
                    );
                }
            }
            for s in &self.slots {
                let zn = s.zdd.verif_nodes();
                n += check_nodes(&zn, "zdd", phase, &self.log, out);
            }
        }
        // (iv) iteration: each member once, each set ascending
        for (i, s) in self.slots.iter().enumerate() {
            let sets: Vec<Vec<u32>> = self.arena.iter(s.h).collect();
            let (f, dup, uns) = to_family(sets.clone());
            n += 1;
            if dup {
                out.violation(&format!("arena/iter/member-twice/{}", phase), "iteration yields a member set twice", json!({"slot": i, "sets": sets, "history": self.log}));
            }
            if uns {
                out.violation(&format!("arena/iter/not-ascending/{}", phase), "iteration yields a set whose elements are not strictly ascending", json!({"slot": i, "sets": sets, "history": self.log}));
            }
            if f != s.model {
                out.violation(&format!("arena/iter/family-differs/{}", phase), "live handle does not denote its family any more", json!({"slot": i, "expected": fam_json(&s.model), "got": fam_json(&f), "history": self.log}));
            }
            let zsets: Vec<Vec<u32>> = s.zdd.iter().collect();
            let (_zf, zdup, zuns) = to_family(zsets.clone());
            n += 1;
            if zdup {
                out.violation(&format!("zdd/iter/member-twice/{}", phase), "Zdd iteration yields a member twice", json!({"slot": i, "sets": zsets, "history": self.log}));
            }
            if zuns {
                out.violation(&format!("zdd/iter/not-ascending/{}", phase), "Zdd iteration yields a non-ascending set", json!({"slot": i, "sets": zsets, "history": self.log}));
            }
        }
        n
    }
}

#[cfg(varpulis_verif)]
fn check_nodes(nodes: &[varpulis_zdd::ZddNode], api: &str, phase: &str, log: &[String], out: &mut Partial) -> u64 {
    let mut n = 0;
    for (id, nd) in nodes.iter().enumerate() {
        n += 1;
        if nd.hi == ZddRef::Empty {
            out.violation(
                &format!("{}/node/hi-empty/{}", api, phase),
                "stored node has an empty include-branch (not zero-suppressed)",
                json!({"id": id, "node": format!("{:?}", nd), "history": log}),
            );
        }
        for child in [nd.lo, nd.hi] {
            if let ZddRef::Node(c) = child {
                match nodes.get(c as usize) {
                    None => out.violation(
                        &format!("{}/node/dangling-child/{}", api, phase),
                        "stored node references a node id beyond the table",
                        json!({"id": id, "node": format!("{:?}", nd), "history": log}),
                    ),
                    Some(cn) => {
                        if cn.var <= nd.var {
                            out.violation(
                                &format!("{}/node/order/{}", api, phase),
                                "variables do not strictly increase along a path",
                                json!({"id": id, "node": format!("{:?}", nd), "child": format!("{:?}", cn), "history": log}),
                            );
                        }
                    }
                }
            }
        }
    }
    n
}

/// A random operation step; returns (op name, produced slot) or None for gc.
pub fn random_step(w: &mut World, rng: &mut Rng, allow_gc: bool) -> (String, Option<usize>) {
    let nv = w.nvars;
    let r = rng.below(100);
    if w.slots.len() < 2 || r < 18 {
        let kind = rng.below(5);
        let len = rng.below(nv as usize + 1);
        // unsorted, possibly repeated elements on purpose
        let elems: Vec<u32> = (0..len).map(|_| rng.below(nv as usize) as u32).collect();
        let e = if kind == 2 && elems.is_empty() { vec![rng.below(nv as usize) as u32] } else { elems };
        let i = w.push_atom(kind.min(3), &e);
        let name = ["empty", "base", "singleton", "from_set"][kind.min(3)];
        return (name.to_string(), Some(i));
    }
    if allow_gc && r < 26 {
        let keep: Vec<usize> = (0..w.slots.len()).filter(|_| rng.chance(2, 3)).collect();
        w.gc(&keep);
        return ("gc".into(), None);
    }
    if r < 40 {
        let a = rng.below(w.slots.len());
        let v = rng.below(nv as usize) as u32;
        let i = w.pwo(a, v);
        return ("product_with_optional".into(), Some(i));
    }
    let a = rng.below(w.slots.len());
    let b = rng.below(w.slots.len());
    let op = match rng.below(10) {
        0..=2 => BinOp::Union,
        3..=5 => BinOp::Intersection,
        6..=8 => BinOp::Difference,
        _ => BinOp::Product,
    };
    // keep product results small
    let op = if op == BinOp::Product && w.slots[a].model.len() * w.slots[b].model.len() > 64 { BinOp::Union } else { op };
    let i = w.binop(op, a, b);
    (op.name().to_string(), Some(i))
}
