//! Shared by c41.rs / c43.rs (included with #[path]): the corpus of real VPL sources shipped
//! in /repo (examples, docs snippets, test sources) and grammar-aware + byte-level mutators.
#![allow(dead_code)]

use std::path::{Path, PathBuf};
use vh_common::Rng;

// ---------------------------------------------------------------------------
// A panic hook that is silent on EVERY thread (the parser runs in its own thread, so the
// thread-local quiet flag of vh-common does not cover it), counts panics and remembers the
// last location per thread and globally.
// ---------------------------------------------------------------------------
pub static PANICS: std::sync::atomic::AtomicU64 = std::sync::atomic::AtomicU64::new(0);
thread_local! {
    static LAST: std::cell::RefCell<String> = const { std::cell::RefCell::new(String::new()) };
}
static LAST_ANY: std::sync::Mutex<String> = std::sync::Mutex::new(String::new());

pub fn install_silent_hook() {
    std::panic::set_hook(Box::new(|info| {
        PANICS.fetch_add(1, std::sync::atomic::Ordering::Relaxed);
        let loc = info.location().map(|l| format!("{}:{}", l.file(), l.line())).unwrap_or_default();
        LAST.with(|l| *l.borrow_mut() = loc.clone());
        if let Ok(mut g) = LAST_ANY.lock() {
            *g = loc;
        }
    }));
}
pub fn last_panic_here() -> String {
    LAST.with(|l| l.borrow().clone())
}
pub fn last_panic_anywhere() -> String {
    LAST_ANY.lock().map(|g| g.clone()).unwrap_or_default()
}
pub fn panic_count() -> u64 {
    PANICS.load(std::sync::atomic::Ordering::Relaxed)
}
/// `crates/x/src/y.rs` without the line number: a stable signature component.
pub fn site_file(loc: &str) -> String {
    let s = match loc.find("crates/") {
        Some(i) => &loc[i..],
        None => match loc.rfind("/src/") {
            // registry crate: keep "<crate-dir>/src/file.rs"
            Some(i) => {
                let head = &loc[..i];
                let start = head.rfind('/').map(|p| p + 1).unwrap_or(0);
                &loc[start..]
            }
            None => loc,
        },
    };
    s.rsplit_once(':').map(|x| x.0).unwrap_or(s).to_string()
}

// ---------------------------------------------------------------------------
// Corpus
// ---------------------------------------------------------------------------
fn walk(dir: &Path, out: &mut Vec<PathBuf>, depth: usize) {
    if depth > 8 {
        return;
    }
    let Ok(rd) = std::fs::read_dir(dir) else { return };
    let mut ents: Vec<PathBuf> = rd.filter_map(|e| e.ok().map(|e| e.path())).collect();
    ents.sort();
    for p in ents {
        let name = p.file_name().and_then(|s| s.to_str()).unwrap_or("");
        if name == "target" || name == ".git" || name == "node_modules" {
            continue;
        }
        if p.is_dir() {
            walk(&p, out, depth + 1);
        } else {
            out.push(p);
        }
    }
}

/// String literals of a Rust source file (raw `r#"…"#` and plain `"…"`), unescaped roughly.
fn rust_string_literals(src: &str) -> Vec<String> {
    let b = src.as_bytes();
    let mut out = vec![];
    let mut i = 0;
    while i < b.len() {
        if b[i] == b'r' && i + 2 < b.len() && b[i + 1] == b'#' && b[i + 2] == b'"' {
            if let Some(end) = src[i + 3..].find("\"#") {
                out.push(src[i + 3..i + 3 + end].to_string());
                i = i + 3 + end + 2;
                continue;
            }
        }
        if b[i] == b'"' {
            let mut j = i + 1;
            let mut s = String::new();
            let mut ok = false;
            while j < b.len() {
                match b[j] {
                    b'\\' if j + 1 < b.len() => {
                        match b[j + 1] {
                            b'n' => s.push('\n'),
                            b't' => s.push('\t'),
                            b'"' => s.push('"'),
                            b'\\' => s.push('\\'),
                            b'\n' => {}
                            c => {
                                s.push('\\');
                                s.push(c as char);
                            }
                        }
                        j += 2;
                    }
                    b'"' => {
                        ok = true;
                        break;
                    }
                    _ => {
                        // copy one UTF-8 char
                        let ch = src[j..].chars().next().unwrap_or(' ');
                        s.push(ch);
                        j += ch.len_utf8();
                    }
                }
            }
            if ok {
                out.push(s);
                i = j + 1;
                continue;
            }
        }
        // skip char literals like '"'
        if b[i] == b'\'' && i + 2 < b.len() && b[i + 2] == b'\'' {
            i += 3;
            continue;
        }
        i += 1;
    }
    out
}

fn looks_like_vpl(s: &str) -> bool {
    s.len() >= 12
        && ["stream ", "event ", "pattern ", "fn ", "let ", "for ", "connector ", "context ", "config", "var ", "const ", "import "]
            .iter()
            .any(|k| s.contains(k))
}

/// (origin label, text). Deterministic order.
pub fn corpus(repo: &Path) -> Vec<(String, String)> {
    let mut files = vec![];
    walk(repo, &mut files, 0);
    let mut out: Vec<(String, String)> = vec![];
    for p in &files {
        let rel = p.strip_prefix(repo).unwrap_or(p).to_string_lossy().to_string();
        let ext = p.extension().and_then(|s| s.to_str()).unwrap_or("");
        if ext == "vpl" {
            if let Ok(t) = std::fs::read_to_string(p) {
                out.push((rel, t));
            }
        } else if ext == "md" && (rel.starts_with("docs/") || rel == "README.md") {
            if let Ok(t) = std::fs::read_to_string(p) {
                let mut cur: Option<String> = None;
                let mut n = 0;
                for line in t.lines() {
                    let tl = line.trim_start();
                    if let Some(c) = cur.as_mut() {
                        if tl.starts_with("```") {
                            let c = cur.take().unwrap();
                            if !c.trim().is_empty() {
                                n += 1;
                                out.push((format!("{}#snippet{}", rel, n), c));
                            }
                        } else {
                            c.push_str(line);
                            c.push('\n');
                        }
                    } else if tl.starts_with("```vpl") || tl.starts_with("```varpulis") {
                        cur = Some(String::new());
                    }
                }
            }
        } else if ext == "rs"
            && (rel.starts_with("crates/varpulis-parser/tests/")
                || rel == "crates/varpulis-parser/src/pest_parser.rs"
                || rel.starts_with("crates/varpulis-lsp/src/")
                || rel.starts_with("crates/varpulis-core/src/validate"))
        {
            if let Ok(t) = std::fs::read_to_string(p) {
                let mut n = 0;
                for s in rust_string_literals(&t) {
                    if looks_like_vpl(&s) {
                        n += 1;
                        out.push((format!("{}#literal{}", rel, n), s));
                    }
                }
            }
        }
    }
    out
}

/// Cut texts into chunks of at most `max` bytes at blank-line (else line) boundaries.
pub fn chunks(corpus: &[(String, String)], max: usize) -> Vec<(String, String)> {
    let mut out = vec![];
    for (name, text) in corpus {
        if text.len() <= max {
            out.push((name.clone(), text.clone()));
            continue;
        }
        let mut cur = String::new();
        let mut part = 0;
        let mut para = String::new();
        let flush_para = |cur: &mut String, para: &mut String, out: &mut Vec<(String, String)>, part: &mut usize| {
            if cur.len() + para.len() > max && !cur.is_empty() {
                *part += 1;
                out.push((format!("{}@part{}", name, part), std::mem::take(cur)));
            }
            // a single paragraph larger than max: split by lines
            if para.len() > max {
                for l in para.split_inclusive('\n') {
                    if cur.len() + l.len() > max && !cur.is_empty() {
                        *part += 1;
                        out.push((format!("{}@part{}", name, part), std::mem::take(cur)));
                    }
                    if l.len() <= max {
                        cur.push_str(l);
                    }
                }
                para.clear();
            } else {
                cur.push_str(para);
                para.clear();
            }
        };
        for l in text.split_inclusive('\n') {
            para.push_str(l);
            // paragraph ends at a blank line followed by a non-indented line: approximate by blank line
            if l.trim().is_empty() {
                flush_para(&mut cur, &mut para, &mut out, &mut part);
            }
        }
        flush_para(&mut cur, &mut para, &mut out, &mut part);
        if !cur.is_empty() {
            part += 1;
            out.push((format!("{}@part{}", name, part), cur));
        }
    }
    out
}

// ---------------------------------------------------------------------------
// Tokens
// ---------------------------------------------------------------------------
/// Lossless tokenisation: identifier/number runs, quoted strings, newline, runs of blanks,
/// every other char alone.
pub fn tokens(s: &str) -> Vec<String> {
    let cs: Vec<char> = s.chars().collect();
    let mut out = vec![];
    let mut i = 0;
    while i < cs.len() {
        let c = cs[i];
        if c.is_alphanumeric() || c == '_' {
            let st = i;
            while i < cs.len() && (cs[i].is_alphanumeric() || cs[i] == '_') {
                i += 1;
            }
            out.push(cs[st..i].iter().collect());
        } else if c == '"' {
            let st = i;
            i += 1;
            while i < cs.len() && cs[i] != '"' && cs[i] != '\n' {
                if cs[i] == '\\' {
                    i += 1;
                }
                i += 1;
            }
            i = (i + 1).min(cs.len());
            out.push(cs[st..i].iter().collect());
        } else if c == ' ' || c == '\t' {
            let st = i;
            while i < cs.len() && (cs[i] == ' ' || cs[i] == '\t') {
                i += 1;
            }
            out.push(cs[st..i].iter().collect());
        } else {
            out.push(c.to_string());
            i += 1;
        }
    }
    out
}

pub const POOL: &[&str] = &[
    "stream", "event", "pattern", "fn", "let", "var", "const", "for", "in", "if", "elif", "else", "while", "return", "config", "connector",
    "context", "import", "as", "and", "or", "not", "true", "false", "null", "within", "SEQ", "AND", "OR", "NOT", "all", "match", "emit",
    "extends", "type", "break", "continue", "where", "window", "aggregate", "partition_by", "join", "on", "from", "to", "select", "sequence",
    "->", "=>", "..", "..=", "==", "!=", "<=", ">=", "<", ">", "=", "+", "-", "*", "/", "%", "**", "?", "??", "?.", "!", "@", "$", "&", "|", "^",
    "~", ":", "::", ";", ",", ".", "(", ")", "[", "]", "{", "}", "\"", "'", "#", "//", "/*", "*/", "\\", "`", "\n", "\n    ", "\n\t", "    ", "\t",
    "0", "1", "-1", "1.5", "1e9", "5s", "10m", "1h", "2d", "100ms", "@2024-01-01", "@2024-01-01T00:00:00Z", "x", "a.b", "f(x)", "[1, 2]", "{a: 1}",
    "\"s\"", "x[0]", "x[1:2]", "lambda", "|x|", "_", "$1", "0x10", "1_000",
];

pub const NON_ASCII: &[&str] = &[
    "\u{e9}", "\u{fc}ber", "\u{2192}", "\u{1F4A5}", "\u{ab}", "\u{bb}", "\u{ab}INDENT\u{bb}", "\u{ab}DEDENT\u{bb}", "\u{2028}", "\u{a0}", "e\u{301}",
    "\u{feff}", "\u{65e5}\u{672c}\u{8a9e}", "\u{3b1}\u{3b2}", "\u{200b}", "\u{1F600}\u{1F600}", "\u{ff08}", "\u{201c}q\u{201d}", "\u{0}", "\u{7f}", "\u{85}",
];

pub const FOLD_EDGES: &[&str] = &[
    "(0-9223372036854775807-1)/(0-1)",
    "(0-9223372036854775807-1)%(0-1)",
    "9223372036854775807+1",
    "(0-9223372036854775807)-2",
    "9223372036854775807*2",
    "1/0",
    "5%0",
    "0.0/0.0",
    "1.0/0",
    "-9223372036854775808",
    "9223372036854775808",
    "2**63",
    "2**64",
    "2**-1",
    "0**0",
    "(0-1)**0.5",
    "1e308*10",
    "1 << 64",
    "\"a\" + 1",
    "not not not true",
    "-(-(-(1)))",
    "x - 0",
    "0 * x",
    "x / 1",
    "1 + 2 * 3 - 4 / 2 % 2",
    "true and false or not true",
];

pub const HUGE: &[&str] = &[
    "99999999999999999999999999999999999999999999999999999999999999999999999999999999",
    "1e999",
    "1e-999",
    "0.000000000000000000000000000000000000000000000000000000000000000000000000000001",
    "99999999999999999999h",
    "18446744073709551616s",
    "9223372036854775807d",
    "999999999999ms",
    "@9999-99-99",
    "@0000-00-00T99:99:99Z",
    "@2024-02-30",
    "1.7976931348623157e309",
    "0x",
    "1..2..3",
    "1.2.3",
];

pub fn describe() -> &'static str {
    "corpus = every *.vpl under /repo, every ```vpl block of docs/**/*.md, VPL-looking string literals of the parser/LSP/validator test sources, cut into chunks; mutators (1-4 stacked): token delete/duplicate/swap/replace/insert from a pool of keywords, operators, brackets and literals; bracket removal/insertion; wrapping in k nested brackets (k up to and beyond the limit of 24, balanced or not); indentation changes (spaces, tabs, dedent); line join/split; non-ASCII insertion (incl. the «INDENT»/«DEDENT» markers, U+2028, BOM, NUL); huge literals; constant-folding edge cases; wrapping in top-level `for i in a..b:` loops (empty, reversed, negative, over the iteration limit, nested); deep block nesting; unterminated strings/comments; truncation; CRLF / missing final newline; repetition of lines and operator chains; byte-level flips/inserts/deletes/splices (made valid UTF-8 lossily)"
}

fn rand_bracket(rng: &mut Rng) -> &'static str {
    *rng.pick(&["(", ")", "[", "]", "{", "}"])
}

fn join(toks: &[String]) -> String {
    toks.concat()
}

/// One grammar-aware mutation. Returns the mutated text and the operator name.
pub fn mutate_once(rng: &mut Rng, src: &str) -> (String, &'static str) {
    let mut toks = tokens(src);
    if toks.is_empty() {
        toks.push(String::new());
    }
    let n = toks.len();
    let sig: Vec<usize> = (0..n).filter(|&i| !toks[i].trim().is_empty()).collect();
    let pick_sig = |rng: &mut Rng| -> usize {
        if sig.is_empty() {
            0
        } else {
            sig[rng.below(sig.len())]
        }
    };
    match rng.below(24) {
        0 => {
            let i = pick_sig(rng);
            toks.remove(i);
            (join(&toks), "token-delete")
        }
        1 => {
            let i = pick_sig(rng);
            let t = toks[i].clone();
            let k = *rng.pick(&[1usize, 1, 2, 10]);
            for _ in 0..k {
                toks.insert(i, t.clone());
            }
            (join(&toks), "token-duplicate")
        }
        2 => {
            let i = pick_sig(rng);
            let j = pick_sig(rng);
            toks.swap(i, j);
            (join(&toks), "token-swap")
        }
        3 => {
            let i = pick_sig(rng);
            toks[i] = (*rng.pick(POOL)).to_string();
            (join(&toks), "token-replace")
        }
        4 => {
            let i = rng.below(n + 1);
            toks.insert(i, (*rng.pick(POOL)).to_string());
            (join(&toks), "token-insert")
        }
        5 => {
            // remove one bracket
            let br: Vec<usize> = (0..n).filter(|&i| ["(", ")", "[", "]", "{", "}"].contains(&toks[i].as_str())).collect();
            if br.is_empty() {
                toks.insert(rng.below(n + 1), rand_bracket(rng).to_string());
            } else {
                toks.remove(br[rng.below(br.len())]);
            }
            (join(&toks), "bracket-remove")
        }
        6 => {
            let k = *rng.pick(&[1usize, 1, 2, 3, 30]);
            for _ in 0..k {
                let i = rng.below(toks.len() + 1);
                toks.insert(i, rand_bracket(rng).to_string());
            }
            (join(&toks), "bracket-insert")
        }
        7 => {
            // wrap a span of tokens in k nested brackets
            let i = pick_sig(rng);
            let j = (i + 1 + rng.below(4)).min(n);
            let k = *rng.pick(&[1usize, 2, 5, 12, 22, 23, 24, 25, 26, 30, 60, 200, 1500]);
            let (o, c) = *rng.pick(&[("(", ")"), ("[", "]"), ("{", "}"), ("(", "]"), ("[", ")")]);
            let balanced = rng.chance(2, 3);
            let mut v: Vec<String> = toks[..i].to_vec();
            v.push(o.repeat(k));
            v.extend_from_slice(&toks[i..j]);
            if balanced {
                v.push(c.repeat(k));
            } else if rng.chance(1, 2) {
                v.push(c.repeat(k / 2));
            }
            v.extend_from_slice(&toks[j..]);
            (join(&v), "nest-wrap")
        }
        8 => {
            // indentation change on one or several lines
            let mut lines: Vec<String> = src.split('\n').map(|s| s.to_string()).collect();
            let times = 1 + rng.below(3);
            for _ in 0..times {
                let i = rng.below(lines.len());
                let l = lines[i].clone();
                let body = l.trim_start_matches([' ', '\t']).to_string();
                let ind = &l[..l.len() - body.len()];
                lines[i] = match rng.below(7) {
                    0 => format!("{}{}", " ".repeat(1 + rng.below(9)), l),
                    1 => body,
                    2 => format!("\t{}", body),
                    3 => format!("{}\t{}", ind, body),
                    4 => format!("{}{}", ind.replace("    ", "\t"), body),
                    5 => format!("{}{}", &ind[..ind.len() / 2], body),
                    _ => format!("{}{}", " ".repeat(200), body),
                };
            }
            (lines.join("\n"), "indent-change")
        }
        9 => {
            // join two lines or split one
            if rng.chance(1, 2) {
                let nl: Vec<usize> = (0..n).filter(|&i| toks[i] == "\n").collect();
                if !nl.is_empty() {
                    let i = nl[rng.below(nl.len())];
                    toks[i] = (*rng.pick(&["", " ", "\\\n", "; "])).to_string();
                }
            } else {
                let i = rng.below(n + 1);
                toks.insert(i, (*rng.pick(&["\n", "\n    ", "\n        ", "\n\t", "\r\n", "\n\n"])).to_string());
            }
            (join(&toks), "line-join-split")
        }
        10 | 11 => {
            let what = *rng.pick(NON_ASCII);
            match rng.below(4) {
                0 => {
                    // inside an identifier / string token
                    let i = pick_sig(rng);
                    let t = toks[i].clone();
                    let cs: Vec<char> = t.chars().collect();
                    let p = rng.below(cs.len() + 1);
                    let mut s: String = cs[..p].iter().collect();
                    s.push_str(what);
                    s.extend(cs[p..].iter());
                    toks[i] = s;
                }
                1 => {
                    let i = rng.below(n + 1);
                    toks.insert(i, format!("# {} comment {}", what, what));
                }
                2 => {
                    let i = rng.below(n + 1);
                    toks.insert(i, format!("\"{}\"", what));
                }
                _ => {
                    let i = rng.below(n + 1);
                    toks.insert(i, what.to_string());
                }
            }
            (join(&toks), "non-ascii")
        }
        12 => {
            let nums: Vec<usize> = (0..n).filter(|&i| toks[i].chars().next().map(|c| c.is_ascii_digit()).unwrap_or(false)).collect();
            let i = if nums.is_empty() || rng.chance(1, 4) { pick_sig(rng) } else { nums[rng.below(nums.len())] };
            toks[i] = (*rng.pick(HUGE)).to_string();
            (join(&toks), "huge-literal")
        }
        13 => {
            let nums: Vec<usize> = (0..n).filter(|&i| toks[i].chars().next().map(|c| c.is_ascii_digit()).unwrap_or(false)).collect();
            let e = *rng.pick(FOLD_EDGES);
            if nums.is_empty() || rng.chance(1, 4) {
                let kind = *rng.pick(&["let", "const", "var"]);
                return (format!("{}\n{} zz = {}\n", src, kind, e), "fold-edge");
            }
            let i = nums[rng.below(nums.len())];
            toks[i] = if rng.chance(1, 2) { format!("({})", e) } else { e.to_string() };
            (join(&toks), "fold-edge")
        }
        14 | 15 => {
            // wrap everything (or a tail) in a top-level declaration loop
            let ranges = [
                "0..3", "0..=2", "5..5", "3..0", "-2..2", "0..10001", "0..=10000", "0..100000000", "0..9223372036854775807", "-9223372036854775808..9223372036854775807", "1..2", "0..1", "a..b", "0..", "..3", "0...3",
                "0 .. 3", "0..=0",
            ];
            let var = *rng.pick(&["i", "i", "row", "x_1", "\u{e9}"]);
            let ph = format!("{{{}}}", var);
            let mut body = String::new();
            let ind = *rng.pick(&["    ", "  ", "\t", "        ", " "]);
            for l in src.lines() {
                if l.trim().is_empty() {
                    body.push('\n');
                    continue;
                }
                let mut l2 = l.to_string();
                if rng.chance(1, 3) {
                    // put a placeholder after some identifier
                    let ts = tokens(&l2);
                    let ids: Vec<usize> = (0..ts.len()).filter(|&k| ts[k].chars().next().map(|c| c.is_alphabetic()).unwrap_or(false)).collect();
                    if !ids.is_empty() {
                        let k = ids[rng.below(ids.len())];
                        let mut ts2 = ts.clone();
                        ts2[k] = format!("{}{}", ts[k], ph);
                        l2 = ts2.concat();
                    }
                }
                body.push_str(ind);
                body.push_str(&l2);
                body.push('\n');
            }
            let mut out = format!("for {} in {}:\n{}", var, rng.pick(&ranges), body);
            if rng.chance(1, 4) {
                // nest once more
                let mut o2 = String::from("for j in 0..2:\n");
                for l in out.lines() {
                    o2.push_str(ind);
                    o2.push_str(l);
                    o2.push('\n');
                }
                out = o2;
            }
            if rng.chance(1, 2) {
                out.push_str("stream AfterLoop = E\n");
            }
            (out, "decl-loop-wrap")
        }
        16 => {
            // deep block nesting
            let depth = *rng.pick(&[3usize, 10, 24, 25, 40, 100, 300]);
            let mut s = String::from(src);
            if !s.ends_with('\n') {
                s.push('\n');
            }
            s.push_str("fn deep_nest(x: int) -> int:\n");
            let kw = *rng.pick(&["if x > 0:", "while x > 0:", "for k in xs:", "if x > 0:"]);
            let step = *rng.pick(&[1usize, 2, 4]);
            for d in 1..=depth {
                s.push_str(&" ".repeat(d * step));
                s.push_str(kw);
                s.push('\n');
            }
            s.push_str(&" ".repeat((depth + 1) * step));
            s.push_str("return x\n");
            (s, "block-nest")
        }
        17 => {
            let i = rng.below(n + 1);
            toks.insert(i, (*rng.pick(&["\"", "/*", "*/", "#", "'", "\"\"\"", "/* /*", "\\"])).to_string());
            (join(&toks), "unterminated")
        }
        18 => {
            // truncate / slice at char boundaries
            let cs: Vec<char> = src.chars().collect();
            if cs.is_empty() {
                return (String::new(), "truncate");
            }
            let a = if rng.chance(1, 3) { rng.below(cs.len()) } else { 0 };
            let b = a + rng.below(cs.len() - a + 1);
            (cs[a..b].iter().collect(), "truncate")
        }
        19 => {
            let s = match rng.below(5) {
                0 => src.replace('\n', "\r\n"),
                1 => src.trim_end().to_string(),
                2 => format!("{}\n\n\n", src),
                3 => src.lines().map(|l| format!("{}   ", l)).collect::<Vec<_>>().join("\n"),
                _ => format!("\n\n{}", src),
            };
            (s, "line-endings")
        }
        20 => {
            // repetition
            let mut s = String::from(src);
            if !s.ends_with('\n') {
                s.push('\n');
            }
            match rng.below(4) {
                0 => {
                    s.push_str("stream Rep = E");
                    let k = *rng.pick(&[10usize, 100, 250]);
                    for _ in 0..k {
                        s.push_str(".where(x > 1)");
                    }
                    s.push('\n');
                }
                1 => {
                    s.push_str("let rep = a");
                    let k = *rng.pick(&[10usize, 200, 1500]);
                    let op = *rng.pick(&[" + a", " and a", " == a", ".a", "[0]", " - -a", " ?? a"]);
                    for _ in 0..k {
                        s.push_str(op);
                    }
                    s.push('\n');
                }
                2 => {
                    let lines: Vec<&str> = src.lines().filter(|l| !l.trim().is_empty()).collect();
                    if !lines.is_empty() {
                        let l = lines[rng.below(lines.len())];
                        for _ in 0..*rng.pick(&[3usize, 50]) {
                            s.push_str(l);
                            s.push('\n');
                        }
                    }
                }
                _ => {
                    s.push_str("let neg = ");
                    let k = *rng.pick(&[5usize, 23, 24, 25, 100, 2000]);
                    let u = *rng.pick(&["-", "not ", "!", "~"]);
                    for _ in 0..k {
                        s.push_str(u);
                    }
                    s.push_str("1\n");
                }
            }
            (s, "repetition")
        }
        21 => {
            // literal marker text & keywords at line start
            let mut lines: Vec<String> = src.split('\n').map(|s| s.to_string()).collect();
            let i = rng.below(lines.len());
            let ins = *rng.pick(&["\u{ab}INDENT\u{bb}", "\u{ab}DEDENT\u{bb}", "else:", "elif x:", "config:", "event E:", "fn f():", "for i in 0..2:", "    for i in 0..2:", "if x:"]);
            lines.insert(i, ins.to_string());
            (lines.join("\n"), "marker-line")
        }
        _ => byte_mutate(rng, src),
    }
}

pub fn byte_mutate(rng: &mut Rng, src: &str) -> (String, &'static str) {
    let mut b = src.as_bytes().to_vec();
    let k = 1 + rng.below(4);
    for _ in 0..k {
        if b.is_empty() {
            b.push(rng.below(256) as u8);
            continue;
        }
        let i = rng.below(b.len());
        match rng.below(5) {
            0 => b[i] ^= 1 << rng.below(8),
            1 => b.insert(i, rng.below(256) as u8),
            2 => {
                b.remove(i);
            }
            3 => {
                let len = rng.below(8).min(b.len() - i);
                for x in &mut b[i..i + len] {
                    *x = rng.below(256) as u8;
                }
            }
            _ => {
                // copy a slice elsewhere
                let len = rng.below(40).min(b.len() - i);
                let piece: Vec<u8> = b[i..i + len].to_vec();
                let j = rng.below(b.len() + 1);
                for (o, x) in piece.into_iter().enumerate() {
                    b.insert(j + o, x);
                }
            }
        }
    }
    (String::from_utf8_lossy(&b).into_owned(), "bytes")
}

/// Truncate to at most `max` bytes on a char boundary.
pub fn cap(s: String, max: usize) -> String {
    if s.len() <= max {
        return s;
    }
    let mut e = max;
    while e > 0 && !s.is_char_boundary(e) {
        e -= 1;
    }
    s[..e].to_string()
}

/// 0-4 stacked mutations (0 = the seed itself). Returns (text, operator names).
pub fn mutate(rng: &mut Rng, src: &str, max_len: usize) -> (String, Vec<&'static str>) {
    let k = match rng.below(10) {
        0 => 0,
        1..=5 => 1,
        6 | 7 => 2,
        8 => 3,
        _ => 4,
    };
    let mut s = src.to_string();
    let mut ops = vec![];
    for _ in 0..k {
        let (t, op) = mutate_once(rng, &s);
        s = cap(t, max_len);
        ops.push(op);
    }
    (s, ops)
}

// ---------------------------------------------------------------------------
// Worker subprocesses. `varpulis_parser::parse` spawns a thread with a 16 MB stack per call;
// many harness threads doing that inside ONE process serialise on the address-space lock
// (measured: 16 threads are slower than 1). So the parallel unit is a process: the binary
// re-executes itself with `--worker i --workers n`, each worker is single-threaded and prints
// its `Partial` as one JSON line.
// ---------------------------------------------------------------------------
use serde_json::{json, Value as J};
use vh_common::Partial;

pub fn partial_to_json(p: &Partial) -> J {
    json!({
        "evaluations": p.evaluations,
        "nontrivial": p.nontrivial.iter().collect::<Vec<_>>(),
        "samples": p.samples,
        "violations": p.violations.iter().map(|(a, b, c)| json!([a, b, c])).collect::<Vec<_>>(),
        "counters": p.counters,
        "inconclusive": p.inconclusive,
    })
}

pub fn partial_from_json(j: &J) -> Partial {
    let mut p = Partial::default();
    p.evaluations = j["evaluations"].as_u64().unwrap_or(0);
    for x in j["nontrivial"].as_array().cloned().unwrap_or_default() {
        if let Some(h) = x.as_u64() {
            p.nontrivial.insert(h);
        }
    }
    p.samples = j["samples"].as_array().cloned().unwrap_or_default();
    for v in j["violations"].as_array().cloned().unwrap_or_default() {
        p.violations.push((v[0].as_str().unwrap_or("").to_string(), v[1].as_str().unwrap_or("").to_string(), v[2].clone()));
    }
    if let Some(m) = j["counters"].as_object() {
        for (k, v) in m {
            p.counters.insert(k.clone(), v.as_u64().unwrap_or(0));
        }
    }
    for w in j["inconclusive"].as_array().cloned().unwrap_or_default() {
        p.inconclusive.push(w.as_str().unwrap_or("").to_string());
    }
    p
}

/// Worker side: print the partial and leave.
pub fn worker_emit(p: &Partial) -> ! {
    use std::io::Write;
    let s = partial_to_json(p).to_string();
    let mut o = std::io::stdout();
    let _ = o.write_all(b"PARTIAL ");
    let _ = o.write_all(s.as_bytes());
    let _ = o.write_all(b"\n");
    let _ = o.flush();
    std::process::exit(0)
}

/// Parent side: run `n` workers of this very binary (same arguments + `--worker i --workers n`).
/// Returns the partials and a list of harness problems (dead workers).
pub fn run_workers(n: usize) -> (Vec<Partial>, Vec<String>) {
    let exe = match std::env::current_exe() {
        Ok(e) => e,
        Err(e) => return (vec![], vec![format!("current_exe: {}", e)]),
    };
    let base: Vec<String> = std::env::args().skip(1).collect();
    let mut hs = vec![];
    for i in 0..n {
        let exe = exe.clone();
        let base = base.clone();
        hs.push(std::thread::spawn(move || -> Result<Partial, String> {
            let out = std::process::Command::new(&exe)
                .args(&base)
                .arg("--worker")
                .arg(i.to_string())
                .arg("--workers")
                .arg(n.to_string())
                .stdin(std::process::Stdio::null())
                .output()
                .map_err(|e| format!("spawn worker {}: {}", i, e))?;
            let so = String::from_utf8_lossy(&out.stdout);
            for line in so.lines() {
                if let Some(rest) = line.strip_prefix("PARTIAL ") {
                    if let Ok(j) = serde_json::from_str::<J>(rest) {
                        return Ok(partial_from_json(&j));
                    }
                }
            }
            let se = String::from_utf8_lossy(&out.stderr);
            let tail: String = se.chars().rev().take(400).collect::<Vec<_>>().into_iter().rev().collect();
            Err(format!("worker {} ended with {:?} without a result; stderr tail: {}", i, out.status, tail))
        }));
    }
    let mut parts = vec![];
    let mut problems = vec![];
    for h in hs {
        match h.join() {
            Ok(Ok(p)) => parts.push(p),
            Ok(Err(e)) => problems.push(e),
            Err(_) => problems.push("worker manager thread panicked".into()),
        }
    }
    (parts, problems)
}
