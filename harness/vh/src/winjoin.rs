//! Shared by c12 / c13 / c15: generated events with unique uids and explicit timestamps,
//! uid-fingerprint aggregates (count / bitmask sum / uid sum / first / last) that determine the
//! exact set of events of an engine window emission, and small JSON helpers for witnesses.
#![allow(dead_code)]
use serde_json::{json, Value as J};
use varpulis_core::Value;
use varpulis_runtime::event::Event;
use varpulis_runtime::persistence::{SerializableEvent, SerializableValue, WindowCheckpoint};
use vh::eng::*;

/// Engine-lane streams are limited to this many events so that `sum(bit)` (an f64) is exact.
pub const MAX_BITS: usize = 50;

#[derive(Clone, Debug, Hash, PartialEq, Eq)]
pub struct GEv {
    pub uid: i64,
    pub ty: String,
    /// milliseconds after the harness epoch (`vh::eng::ts_ms`)
    pub ts: i64,
    pub key: i64,
}

impl GEv {
    pub fn new(uid: i64, ty: &str, ts: i64, key: i64) -> GEv {
        GEv { uid, ty: ty.to_string(), ts, key }
    }
    /// uid, k and (for uid <= MAX_BITS) bit = 2^(uid-1)
    pub fn event(&self) -> Event {
        let mut f: Vec<(&str, Value)> = vec![("uid", Value::Int(self.uid)), ("k", Value::Int(self.key))];
        if self.uid >= 1 && (self.uid as usize) <= MAX_BITS {
            f.push(("bit", Value::Int(1i64 << (self.uid - 1))));
        }
        ev(&self.ty, ts_ms(self.ts), &f)
    }
    pub fn json(&self) -> J {
        json!({"uid": self.uid, "type": self.ty, "ts_ms": self.ts, "k": self.key})
    }
    pub fn from_json(j: &J) -> Option<GEv> {
        Some(GEv { uid: j["uid"].as_i64()?, ty: j["type"].as_str()?.to_string(), ts: j["ts_ms"].as_i64()?, key: j["k"].as_i64()? })
    }
}

pub fn uid_of(e: &Event) -> Option<i64> {
    get_i(e, "uid")
}

pub fn uid_of_ser(e: &SerializableEvent) -> Option<i64> {
    match e.fields.get("uid") {
        Some(SerializableValue::Int(i)) => Some(*i),
        _ => None,
    }
}

/// Buffered uids of a window checkpoint: unpartitioned buffer first, then each partition
/// (sorted by key for determinism); each group is one buffered window.
pub fn checkpoint_groups(cp: &WindowCheckpoint) -> Result<Vec<Vec<i64>>, String> {
    let mut groups = vec![];
    let conv = |es: &Vec<SerializableEvent>| -> Result<Vec<i64>, String> {
        es.iter().map(|e| uid_of_ser(e).ok_or_else(|| "checkpointed event without uid".to_string())).collect()
    };
    if !cp.events.is_empty() {
        groups.push(conv(&cp.events)?);
    }
    let mut keys: Vec<&String> = cp.partitions.keys().collect();
    keys.sort();
    for k in keys {
        let g = conv(&cp.partitions[k].events)?;
        if !g.is_empty() {
            groups.push(g);
        }
    }
    Ok(groups)
}

/// The aggregate + emit tail appended to every engine-lane window program.
pub const FP_TAIL: &str = "    .aggregate(c: count(), s: sum(bit), u: sum(uid), f: first(uid), l: last(uid))\n    .emit(c: c, s: s, u: u, f: f, l: l)\n";

/// Decoded fingerprint of one engine emission.
#[derive(Clone, Debug)]
pub struct Fp {
    /// uids of the emitted set, ascending by uid (uids are assigned in arrival order)
    pub set: Vec<i64>,
    pub first: Option<i64>,
    pub last: Option<i64>,
}

fn num(e: &Event, k: &str) -> Option<f64> {
    match e.data.get(k) {
        Some(Value::Int(i)) => Some(*i as f64),
        Some(Value::Float(f)) => Some(*f),
        _ => None,
    }
}

/// Why an emission could not be decoded.
pub enum FpErr {
    /// fields missing / not numeric: harness trouble, never a verdict
    Malformed(String),
    /// count != popcount of the bit sum (only possible when some event is summed twice) or the
    /// uid sum disagrees with the decoded set: the emission is not a set of distinct events
    Inconsistent(String),
}

pub fn decode_fp(e: &Event) -> Result<Fp, FpErr> {
    let c = num(e, "c").ok_or_else(|| FpErr::Malformed("no count field".into()))?;
    if c == 0.0 {
        return Ok(Fp { set: vec![], first: None, last: None });
    }
    let s = num(e, "s").ok_or_else(|| FpErr::Malformed("no bit-sum field".into()))?;
    let u = num(e, "u").ok_or_else(|| FpErr::Malformed("no uid-sum field".into()))?;
    if s < 0.0 || s.fract() != 0.0 || s >= 9.0e15 {
        return Err(FpErr::Malformed(format!("bit sum {} is not a small non-negative integer", s)));
    }
    let mask = s as u64;
    let mut set = vec![];
    for b in 0..63 {
        if mask & (1u64 << b) != 0 {
            set.push(b as i64 + 1);
        }
    }
    if set.len() as f64 != c {
        return Err(FpErr::Inconsistent(format!("count {} but bit sum {} has {} distinct events", c, s, set.len())));
    }
    let su: i64 = set.iter().sum();
    if su as f64 != u {
        return Err(FpErr::Inconsistent(format!("uid sum {} but decoded set sums to {}", u, su)));
    }
    Ok(Fp { set, first: get_i(e, "f"), last: get_i(e, "l") })
}

pub fn in_order(ts: impl Iterator<Item = i64>) -> bool {
    let mut prev = i64::MIN;
    for t in ts {
        if t < prev {
            return false;
        }
        prev = t;
    }
    true
}

pub fn jarr_i(v: &[i64]) -> J {
    json!(v)
}

pub fn read_replay(path: &std::path::Path) -> J {
    let txt = std::fs::read_to_string(path).expect("replay file");
    let doc: J = serde_json::from_str(&txt).expect("replay json");
    doc["witness"].clone()
}
