//! Gated in-process mock worker HTTP servers (loopback, warp) for the coordinator checks C32 / C38.
//!
//! A mock worker answers the worker REST API the coordinator calls, keeps its own truth (the set of
//! live pipelines: deploy adds, delete removes) and shares a `Ctl` with the other workers of the case:
//!   * gate: `ctl.arm()` makes the NEXT worker call of any kind park before it is processed; the harness
//!     waits for it with `ctl.wait_parked(n)`, runs other operations, then `ctl.release(ticket)`;
//!   * scripted outcomes: deploys of (worker tag, pipeline name) pairs in `fail` answer HTTP 500.
//! Included with `#[path = "../gatemock.rs"] mod gatemock;`.
#![allow(dead_code)]

use serde_json::{json, Value as J};
use std::collections::{BTreeMap, BTreeSet};
use std::sync::atomic::{AtomicBool, AtomicU64, Ordering};
use std::sync::{Arc, Mutex};
use warp::Filter;

#[derive(Default)]
pub struct Ctl {
    armed: AtomicBool,
    next_ticket: AtomicU64,
    parked: Mutex<Vec<(u64, tokio::sync::oneshot::Sender<()>)>>,
    parked_total: AtomicU64,
    notify: tokio::sync::Notify,
    /// (worker tag, pipeline name) whose deploy answers 500
    pub fail: Mutex<BTreeSet<(String, String)>>,
    pub calls: AtomicU64,
    pid: AtomicU64,
}

impl Ctl {
    pub fn new() -> Arc<Ctl> {
        Arc::new(Ctl::default())
    }
    /// The next worker call (of any worker sharing this Ctl) parks before being processed.
    pub fn arm(&self) {
        self.armed.store(true, Ordering::SeqCst);
    }
    pub fn disarm(&self) {
        self.armed.store(false, Ordering::SeqCst);
    }
    pub fn parked_total(&self) -> u64 {
        self.parked_total.load(Ordering::SeqCst)
    }
    /// Tickets currently parked (oldest first).
    pub fn parked_tickets(&self) -> Vec<u64> {
        self.parked.lock().unwrap().iter().map(|p| p.0).collect()
    }
    /// Wait until the total number of calls ever parked reaches `n`.
    pub async fn wait_parked(&self, n: u64) {
        loop {
            let fut = self.notify.notified();
            if self.parked_total() >= n {
                return;
            }
            fut.await;
        }
    }
    pub fn release(&self, ticket: u64) -> bool {
        let mut g = self.parked.lock().unwrap();
        if let Some(i) = g.iter().position(|p| p.0 == ticket) {
            let (_, tx) = g.remove(i);
            let _ = tx.send(());
            true
        } else {
            false
        }
    }
    pub fn release_all(&self) {
        self.disarm();
        let mut g = self.parked.lock().unwrap();
        for (_, tx) in g.drain(..) {
            let _ = tx.send(());
        }
    }
    pub fn reset(&self) {
        self.release_all();
        self.fail.lock().unwrap().clear();
    }
    async fn gate(&self) {
        self.calls.fetch_add(1, Ordering::SeqCst);
        if self.armed.swap(false, Ordering::SeqCst) {
            let (tx, rx) = tokio::sync::oneshot::channel();
            let t = self.next_ticket.fetch_add(1, Ordering::SeqCst);
            self.parked.lock().unwrap().push((t, tx));
            self.parked_total.fetch_add(1, Ordering::SeqCst);
            self.notify.notify_waiters();
            let _ = rx.await;
        }
    }
}

#[derive(Clone)]
pub struct GateWorker {
    pub tag: String,
    pub address: String,
    /// pipeline id -> pipeline name (the worker's own truth)
    pub live: Arc<Mutex<BTreeMap<String, String>>>,
    pub ctl: Arc<Ctl>,
}

impl GateWorker {
    pub fn live_count(&self) -> usize {
        self.live.lock().unwrap().len()
    }
    pub fn live_names(&self) -> Vec<String> {
        let mut v: Vec<String> = self.live.lock().unwrap().values().cloned().collect();
        v.sort();
        v
    }
    pub fn clear(&self) {
        self.live.lock().unwrap().clear();
    }
}

/// Start a gated mock worker on 127.0.0.1:<ephemeral>; must be called inside a tokio runtime (the
/// server task is spawned on it with `tokio::spawn`).
pub fn spawn_gate_worker(tag: &str, ctl: Arc<Ctl>) -> Result<GateWorker, String> {
    let live: Arc<Mutex<BTreeMap<String, String>>> = Arc::new(Mutex::new(BTreeMap::new()));
    let tagc = tag.to_string();

    let with = {
        let ctl = ctl.clone();
        let live = live.clone();
        let tag = tagc.clone();
        warp::any().map(move || (ctl.clone(), live.clone(), tag.clone()))
    };

    let deploy = warp::post()
        .and(warp::path!("api" / "v1" / "pipelines"))
        .and(warp::body::json())
        .and(with.clone())
        .and_then(|body: J, (ctl, live, tag): (Arc<Ctl>, Arc<Mutex<BTreeMap<String, String>>>, String)| async move {
            ctl.gate().await;
            let name = body.get("name").and_then(|n| n.as_str()).unwrap_or("").to_string();
            if ctl.fail.lock().unwrap().contains(&(tag.clone(), name.clone())) {
                return Ok::<_, std::convert::Infallible>(warp::reply::with_status(warp::reply::json(&json!({"error": "injected deploy failure"})), warp::http::StatusCode::INTERNAL_SERVER_ERROR));
            }
            let id = format!("{}-p{}", tag, ctl.pid.fetch_add(1, Ordering::SeqCst) + 1);
            live.lock().unwrap().insert(id.clone(), name.clone());
            Ok(warp::reply::with_status(warp::reply::json(&json!({"id": id, "name": name, "status": "running"})), warp::http::StatusCode::CREATED))
        });

    let checkpoint = warp::post()
        .and(warp::path!("api" / "v1" / "pipelines" / String / "checkpoint"))
        .and(with.clone())
        .and_then(|_pid: String, (ctl, _live, _tag): (Arc<Ctl>, Arc<Mutex<BTreeMap<String, String>>>, String)| async move {
            ctl.gate().await;
            // best-effort step of a migration: "no checkpoint available"
            Ok::<_, std::convert::Infallible>(warp::reply::with_status(warp::reply::json(&json!({"error": "no checkpoint"})), warp::http::StatusCode::NOT_FOUND))
        });

    let restore = warp::post()
        .and(warp::path!("api" / "v1" / "pipelines" / String / "restore"))
        .and(warp::body::json())
        .and(with.clone())
        .and_then(|_pid: String, _body: J, (ctl, _live, _tag): (Arc<Ctl>, Arc<Mutex<BTreeMap<String, String>>>, String)| async move {
            ctl.gate().await;
            Ok::<_, std::convert::Infallible>(warp::reply::json(&json!({"restored": true})))
        });

    let delete = warp::delete()
        .and(warp::path!("api" / "v1" / "pipelines" / String))
        .and(with.clone())
        .and_then(|pid: String, (ctl, live, _tag): (Arc<Ctl>, Arc<Mutex<BTreeMap<String, String>>>, String)| async move {
            ctl.gate().await;
            live.lock().unwrap().remove(&pid);
            Ok::<_, std::convert::Infallible>(warp::reply::json(&json!({"deleted": true})))
        });

    let routes = deploy.or(checkpoint).or(restore).or(delete);
    let (addr, fut) = warp::serve(routes)
        .try_bind_ephemeral(([127, 0, 0, 1], 0))
        .map_err(|e| format!("cannot bind mock worker: {e}"))?;
    tokio::spawn(fut);
    Ok(GateWorker { tag: tagc, address: format!("http://{}", addr), live, ctl })
}
