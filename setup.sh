#!/bin/sh
# MANIFEST.setup_cmd: offline build of every harness binary against /repo's working tree.
set -e
cd "$(dirname "$0")"
export CARGO_NET_OFFLINE=true
mkdir -p evidence replays target
./check --build-all
# the CLI binary C18 drives (guard off); ./check C18 rebuilds it from the current tree, this only warms the cache
env -u RUSTFLAGS cargo build --offline --manifest-path "${VERIF_REPO:-/repo}/Cargo.toml" -p varpulis-cli --bin varpulis --target-dir target/cli >/dev/null 2>&1 || true
# Miri lanes of C14 (separate target dirs because the two lanes use different RUSTFLAGS)
( cd harness-miri && cp -f /repo/Cargo.lock . 2>/dev/null || true
  CARGO_TARGET_DIR=../target/miri-scalar MIRIFLAGS="-Zmiri-disable-isolation" cargo +nightly miri run --offline --quiet -- 1 1
  RUSTFLAGS="-Ctarget-feature=+avx2" CARGO_TARGET_DIR=../target/miri-avx2 MIRIFLAGS="-Zmiri-disable-isolation" cargo +nightly miri run --offline --quiet -- 1 1 )
