#!/bin/sh
# MANIFEST.setup_cmd: offline build of every harness binary against /repo's working tree.
set -e
cd "$(dirname "$0")"
export CARGO_NET_OFFLINE=true
mkdir -p evidence replays target
./check --build-all
