//! Miri lane of C14: a deterministic single-threaded subset of the aggregate workload.
//! usage: vh-miri <batches> <seed>
#[path = "../../harness/vh/src/aggcore.rs"]
mod aggcore;

fn main() {
    let a: Vec<String> = std::env::args().collect();
    let batches: usize = a.get(1).and_then(|s| s.parse().ok()).unwrap_or(30);
    let seed: u64 = a.get(2).and_then(|s| s.parse().ok()).unwrap_or(1);
    let avx2 = {
        #[cfg(target_arch = "x86_64")]
        {
            std::is_x86_feature_detected!("avx2")
        }
        #[cfg(not(target_arch = "x86_64"))]
        {
            false
        }
    };
    let p = aggcore::sanitize_workload(seed, batches, 24);
    println!(
        "miri-workload batches={} comparisons={} avx2_path={} violations={}",
        p.evaluations,
        p.counters.get("comparisons").copied().unwrap_or(0),
        avx2,
        p.violations.len()
    );
    for v in &p.violations {
        println!("  {} :: {}", v.0, v.1);
    }
    std::process::exit(if p.violations.is_empty() { 0 } else { 1 });
}
