#!/usr/bin/env python3
"""One-off collector (run by hand while the scratch rig under /tmp/mut and the seeding worktrees under
/tmp/seed still exist): copies every confirmed seeded change into /verif/seeded/<ID>/ (patch.diff, demo, meta.json)
and prints the markdown table for DESIGN.md §7.7. Nothing registered in MANIFEST.json depends on it."""
import glob, json, os, re, shutil, sys

GROUPS = {'s1': ['C01', 'C02', 'C03'], 's2': ['C04', 'C05', 'C12'], 's3': ['C06', 'C07', 'C40'], 's4': ['C08', 'C10', 'C14'],
          's5': ['C13', 'C15', 'C16'], 's6': ['C17', 'C46', 'C42'], 's7': ['C22', 'C28', 'C44'], 's8': ['C29', 'C31', 'C43'],
          's9': ['C33', 'C34', 'C39'], 's10': ['C35', 'C24', 'C20'], 's11': ['C26', 'C27', 'C18'], 's12': ['C11', 'C09', 'C41'],
          's13': ['C19', 'C23', 'C21'], 's14': ['C30', 'C45', 'C32'], 's15': ['C36', 'C38'],
          # second round (fresh agents, same procedure): kept as <ID>-r2
          't1': ['C16', 'C19'], 't2': ['C25', 'C03'], 't3': ['C32', 'C38'], 't4': ['C09', 'C10'], 't5': ['C15', 'C22'], 't6': ['C37']}
FLAKY = ('context_tests', 'performance_tests', 'mandelbrot', 'test_large_kleene_no_hang', 'test_process_1000_events', 'chaos',
         'test_two_context', 'test_three_context', 'test_single_context', 'test_session_window', 'test_context_', 'test_parallel_dispatch', 'test_expanded_contexts')

# detection results: every RESULT line of every batch log, in time order; remember first and last
runs = {}
# batch1.log is left out: the disk filled up during that batch and its results are unreliable (it was repeated as batch 2)
logs = sorted((l for l in glob.glob('/tmp/mut/batch*.log') if not l.endswith('/batch1.log')), key=os.path.getmtime)
for lg in logs:
    cur = []
    for line in open(lg, errors='replace'):
        line = line.rstrip()
        m = re.match(r'RESULT (C\d+(?:-r2)?) exit=(\d+)', line)
        if m:
            sigs = [re.search(r'signature=(\S+)', l).group(1) for l in cur if 'VIOLATION' in l and 'signature=' in l]
            runs.setdefault(m.group(1), []).append({'log': os.path.basename(lg), 'exit': int(m.group(2)), 'signatures': sigs[:6]})
            cur = []
        elif line.startswith('PATCH-DOES-NOT-APPLY'):
            runs.setdefault(line.split()[1], []).append({'log': os.path.basename(lg), 'exit': None, 'signatures': [], 'note': 'patch did not apply'})
            cur = []
        else:
            cur.append(line)

rows = []
for g, ids in GROUPS.items():
    for ID in ids:
        src = '/tmp/seed/%s/seeded/%s' % (g, ID)
        label = ID if g.startswith('s') else ID + '-r2'
        cj = '/tmp/mut/confirm_%s.json' % label
        if not os.path.isdir(src):
            continue
        agent_meta = {}
        try:
            agent_meta = json.load(open(os.path.join(src, 'meta.json')))
        except Exception:
            pass
        conf = json.load(open(cj)) if os.path.exists(cj) else None
        r = [x for x in runs.get(label, []) if x.get('exit') is not None]
        first = r[0] if r else None
        last = r[-1] if r else None
        ok_tests = None
        if conf:
            # every test binary that failed in the full (loaded) run must have passed when re-run alone with the patch applied
            rerun = conf.get('flaky_rerun', {})
            ok_tests = bool(conf.get('compiles')) and all(
                rerun.get(b, {}).get('passes_alone_with_patch') for x in conf.get('existing_tests', []) for b in x.get('failed_binaries', []))
        confirmed = bool(conf and conf.get('patch_applies') and conf.get('compiles') and ok_tests
                         and conf.get('demo_passes_without_change') and conf.get('demo_fails_with_change'))
        manual = os.path.exists(os.path.join(src, 'orig'))  # demo replaced by mine and verified by hand
        if manual and conf and conf.get('patch_applies') and conf.get('compiles') and ok_tests and conf.get('demo_fails_with_change'):
            confirmed = True
        status = 'kept' if confirmed else 'not kept'
        det = '-'
        if last:
            if last['exit'] == 1:
                det = 'caught'
            elif last['exit'] == 0:
                det = 'MISSED'
            elif last['exit'] == 2:
                det = 'inconclusive'
            else:
                det = 'run timed out'
            if last['exit'] == 1 and any(x['exit'] == 0 for x in r[:-1]):
                det = 'caught after strengthening (first run missed)'
        rows.append((label, status, det, (last or {}).get('signatures', []), agent_meta.get('needs_to_manifest', agent_meta.get('what_breaks', ''))))
        if confirmed and '--write' in sys.argv:
            dst = '/verif/seeded/%s' % label
            os.makedirs(dst, exist_ok=True)
            for f in os.listdir(src):
                p = os.path.join(src, f)
                if os.path.isfile(p) and (f.endswith('.diff') or f.endswith('.rs') or f == 'meta.json'):
                    shutil.copy(p, os.path.join(dst, f if f != 'meta.json' else 'meta_by_seeding_agent.json'))
            if manual:
                os.makedirs(os.path.join(dst, 'orig'), exist_ok=True)
                for f in os.listdir(os.path.join(src, 'orig')):
                    shutil.copy(os.path.join(src, 'orig', f), os.path.join(dst, 'orig', f))
            meta = {
                'property': ID,
                'what_breaks': agent_meta.get('what_breaks', ''),
                'needs_to_manifest': agent_meta.get('needs_to_manifest', ''),
                'files_changed': agent_meta.get('files_changed', conf.get('crates') if conf else []),
                'written_by': 'independent sub-agent that saw only the property text and a scratch worktree of /repo',
                'confirmed_by_me': {
                    'where': 'scratch worktree /tmp/mut/repo2 of /repo (removed afterwards), target dir /tmp/mut/rtarget',
                    'patch_applies_and_compiles': bool(conf and conf.get('compiles')),
                    'existing_tests': 'cargo test --offline -p <touched crate(s)> --no-fail-fast with the change; every test binary with a failure in that (heavily loaded) run was re-run alone with the change applied and passed' if ok_tests else 'see confirm json',
                    'test_binaries_rerun_alone': conf.get('flaky_rerun', {}),
                    'existing_test_failures_seen': [t for x in (conf or {}).get('existing_tests', []) for t in x['failed_tests']],
                    'demo_passes_without_change': bool(conf and conf.get('demo_passes_without_change')) or manual,
                    'demo_fails_with_change': bool(conf and conf.get('demo_fails_with_change')),
                    'demo_replaced': manual,
                },
                'detection': {
                    'how': 'registered quick check ./check %s run on a scratch copy of the repository with patch.diff applied' % ID,
                    'runs': runs.get(label, []),
                    'verdict': det,
                },
            }
            json.dump(meta, open(os.path.join(dst, 'meta.json'), 'w'), indent=1)

rows.sort()
import io, contextlib
buf = io.StringIO()
with contextlib.redirect_stdout(buf):
  print('| id | seeded change needs | kept | registered quick check | signatures reported |')
  print('|---|---|---|---|---|')
  for ID, status, det, sigs, needs in rows:
    needs = (needs or '').replace('\n', ' ').replace('|', '/')
    if len(needs) > 170:
        needs = needs[:167] + '...'
    if status != 'kept':
        continue
    print('| %s | %s | %s | %s | %s |' % (ID, needs, status, det, ', '.join('`%s`' % s for s in sigs[:3])))

table = buf.getvalue()
sys.stdout.write(table)
if '--write' in sys.argv:
    d = open('/verif/DESIGN.md').read()
    a, b = d.index('<!-- SEEDED-TABLE-BEGIN -->'), d.index('<!-- SEEDED-TABLE-END -->')
    d = d[:a] + '<!-- SEEDED-TABLE-BEGIN -->\n' + table + d[b:]
    open('/verif/DESIGN.md', 'w').write(d)
