#!/usr/bin/env python3
"""split_commit.py <file> <marker>: stage only the hunks of <file> whose added lines contain
<marker> (or, with --not, those that do not)."""
import subprocess, sys, re
f, marker = sys.argv[1], sys.argv[2]
inv = '--not' in sys.argv
d = subprocess.run(['git','diff','-U3',f],capture_output=True,text=True).stdout
head, *hunks = re.split(r'(?m)^(?=@@ )', d)
sel = [h for h in hunks if (marker in h) != inv]
if not sel:
    print("no hunks selected"); sys.exit(1)
p = head + ''.join(sel)
r = subprocess.run(['git','apply','--cached','--recount','-'],input=p,text=True,capture_output=True)
print(r.stdout, r.stderr, "staged", len(sel), "of", len(hunks))
sys.exit(r.returncode)
