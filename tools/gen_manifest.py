#!/usr/bin/env python3
"""Regenerates /verif/MANIFEST.json from the table below (kept in one place so the
manifest is valid at all times)."""
import json, os, sys
V = os.path.dirname(os.path.dirname(os.path.abspath(__file__)))
props = [json.loads(l) for l in open(os.path.join(V, "properties.jsonl"))]
ids = [p["id"] for p in props]

# id -> (level, technique, level text, level note, design ref)
C = {}
def claim(i, level, technique, text, note, ref):
    C[i] = (level, technique, text, note, ref)

claim("C06", "exploration", "runtime monitor: shadow set-family model in lock-step with real ZDD ops",
      "Every operation of Zdd / ZddArena / SharedArena is mirrored on explicit sets of sets and the whole family is compared after each step: exhaustively for all 256x256 family pairs over 3 variables x 4 binary ops (+ product_with_optional), randomly for op sequences of depth <=30 over <=5 variables with gc interleaved. Held on what was executed; not a proof for larger universes.",
      "Trusts the BTreeSet model and that SharedArena families are fully observable through contains() over the universe.", "DESIGN §2 C06")
claim("C07", "exploration", "runtime invariant monitor at quiescent points (hook H2 node dump) + shadow model",
      "After every step of random op/gc histories: equal family <=> equal root per arena, every stored node reduced and ordered (via the H2 node dump), gc-returned handles denote the pre-gc families, iteration yields each member once in ascending order.",
      "Needs hook H2 (cfg varpulis_verif). Canonicity is only comparable inside one arena.", "DESIGN §2 C07")

claim("C01", "exploration", "runtime monitor: independent soundness oracle over every emitted match",
      "Every match emitted by the real parse->load->process path for generated 1-4 step sequence programs (arrow and sequence() forms, optional all / partition_by / .not) is re-checked against the input stream with an evaluator that shares no code with the engine: arrival order, step types, step filters incl. cross-alias references, one partition value, no clause-satisfying negated event inside.",
      "Filters are limited to well-typed int/float/string comparisons so that evaluator corner cases (C08/C09) cannot leak in; .not is read per partition.", "DESIGN §2 C01")
claim("C02", "exploration", "runtime monitor: reference implementation of earliest-continuation semantics (differential)",
      "Multiset of uid tuples emitted by the engine == multiset computed by a 60-line reference matcher, for random programs x random streams and (thorough) all short streams over a reduced alphabet. Disagreements are classified by alternative models (global-negation reading, deferred 1-step completion) so that findings have exact signatures.",
      "Reference semantics = the property's text; matches completing at one event are unordered.", "DESIGN §2 C02")
claim("C03", "exploration", "runtime monitor: brute-force subset oracle + hook H1 (enumerated Kleene combinations)",
      "For streams A B^n C (n<=14) and both predicate classes the kept B's, the number of matches and (via hook H1) the uid set of every enumerated combination are compared with brute force over all ordered subsets, under every cap setting; `all` as last step included; VPL form cross-checked by match counts.",
      "Needs hook H1 (cfg varpulis_verif). Which events survive a max_kleene_events truncation is not specified and not checked beyond count/order/membership.", "DESIGN §2 C03")

claim("C04", "exploration", "runtime monitor: differential between combined run and per-key runs of the real engine",
      "multiset(out(P,S)) == disjoint union of out(P,S|k) over fresh engines, for partitioned sequence programs (incl. .not, all) and every partitioned window kind / window-less aggregate with uid-fingerprint aggregates; keys of one type incl. key-less events.",
      "Outputs compared by stream name and data fields; wall-clock emission time excluded.", "DESIGN §2 C04")
claim("C05", "exploration", "runtime invariant monitor on SaseEngine stats after every event",
      "After every event of adversarial streams and for all five backpressure strategies x max_runs 1-8 x five pattern shapes: runs per partition <= max_runs (tracked by differencing totals), Kleene events and results per completion within caps, no panic (catch_unwind).",
      "Per-partition counts are derived from public totals; debug-assertion/overflow-check build only.", "DESIGN §2 C05")
claim("C10", "exploration", "runtime monitor: differential folded vs unfolded AST of the same source (hook H3) through the real evaluator and engine",
      "Each generated expression is parsed with and without the folding pass and evaluated on events whose fields take 12 value kinds; results must agree in presence, variant and value; disagreements are minimised to the smallest differing sub-expression and classified by folding rule x operand kind; end-to-end lane through .emit/.where/.having.",
      "Needs hook H3. Cases where the unfolded evaluation panics are C11's subject and are skipped (counted).", "DESIGN §2 C10")

claim("C12", "exploration", "runtime monitor: conservation + shape oracle over real window objects and the engine (uid fingerprints)",
      "Every uid added to Tumbling/Count/Session windows (plain, partitioned; direct API and through the engine) must appear in exactly one emission or the final buffer, in arrival order, never twice, under arbitrary interleavings of add / advance_watermark / flush incl. out-of-order timestamps; count windows close with exactly their size; span / gap clauses for in-order streams under watermarks consistent with the stream. Exhaustive short streams over a 4-value timestamp alphabet + random histories.",
      "Shape clauses are only checked under watermarks that never exceed the largest timestamp seen (see DESIGN C12).", "DESIGN §2 C12")
claim("C13", "exploration", "runtime monitor: reference model of sliding emission timing and contents",
      "Emission timing and exact contents of time-sliding and count-sliding windows (plain, partitioned, direct and engine lanes) against a reference model, exhaustive over all (size, slide) in 1..5 squared x short in-order streams with ties, plus random streams; slide > size for count windows accepts both conceivable readings and reports which one was observed.",
      "Reading of 'starting once the window is first full' as in DESIGN C13.", "DESIGN §2 C13")
claim("C14", "exploration", "runtime monitor: path-agreement + definition oracle; Miri (scalar + AVX2) and valgrind memcheck over the only unsafe module",
      "Every aggregate on the row / shared / refs / columnar (fresh, pushed, cached, after drain) / Aggregator paths and through the engine against a straightforward reference and against each other on random batches incl. missing / NaN / inf / strings, all residues mod 4; raw simd kernels; sanitizer lanes: Miri interprets a deterministic subset on the scalar get_unchecked path and (with +avx2) the intrinsics path, valgrind memcheck runs the native AVX2 path of the same workload. Absence of reports = no UB observed on the executed batches.",
      "stddev/ema NaN handling and count_distinct across int/float-equal values are undocumented: only path agreement there. Miri cannot cross FFI; red-zone tools miss non-adjacent overflows.", "DESIGN §2 C14")
claim("C15", "exploration", "runtime monitor: reference join model compared at every arrival (direct JoinBuffer and engine lanes)",
      "For 2- and 3-way joins with small windows, few keys, caps 2-4 and out-of-order timestamps: an output exists iff every source has a retained same-key event with ts >= arriving.ts - window, and the partners are the most recently arrived such events; compared at every arrival. A disagreement is the known high-water finding only if the observation equals an exact mirror of that expiry rule; anything else is a violation.",
      "One-sided window reading as try_correlate states it; retained = last cap arrivals per (source,key).", "DESIGN §2 C15")
claim("C16", "exploration", "runtime monitor: differential between the four real entry points, root-cause classification with hook H4",
      "Ordered output sequences of process / process_batch / process_batch_sync / process_batch_shared under random batch splits for generated multi-stream programs; a disagreement is classified order-only vs content by per-stream projection, and content disagreements are attributed to the known level-order-vs-depth-first root cause only when hook H4 shows the diverging stream (or one upstream) processed events at >=2 chain depths.",
      "Outputs compared by stream name and data; a defect that is only visible through a mixed-depth consumer is masked by the known finding (stated in DESIGN).", "DESIGN §2 C16")
claim("C17", "exploration", "runtime monitor: hook H4 routing trace vs harness-side consumption model",
      "For every (stream, event uid, depth) the number of times the stream processed that event instance (hook H4, all four entry points) must equal the consumption relation computed from the program text, closed over chain depth < 10; chains, diamonds via merge, self-named streams, streams without emit, terminal window/sequence/join consumers.",
      "Sequences/joins over derived streams are excluded (the engine resolves them to base type + filter, an internal choice).", "DESIGN §2 C17")

claim("C08", "exploration", "runtime monitor: exact rational int/float order oracle in four real evaluation contexts",
      "All pairs of a ~90-value boundary table (0, +-0.0, +-1, +-0.5, 2^53+-1, i64 extremes, fractional neighbours, NaN) as field/field, field/literal and literal/field operands of < <= > >= in .where, .emit, .having and .pattern; oracle compares through the float's bit decomposition against i128 (no `as f64`); the consequence a>=b <=> a>b or a==b is counted.", "Negative literals are not used inside .pattern lambdas (not folded there).", "DESIGN §2 C08")
claim("C09", "exploration", "runtime monitor: differential .where vs sequence-step placements of the same filter",
      "The same generated filter (depth <=3, == != < <= > >= and or not, int/float/string/bool/missing fields, literal type independent of field type) in `.where`, as first step of sequence(..) and as a later arrow step; accepted uid sets compared; disagreements minimised to the smallest differing sub-filter.", "Filters containing `not` are injected by AST substitution because the text parser drops `not` (side finding).", "DESIGN §2 C09")
claim("C11", "exploration", "runtime monitor: catch_unwind / subprocess-abort detection over operators x builtins x boundary values",
      "Every operator and builtin template over 68 boundary values (1- and 2-ary exhaustive) plus random nested expressions, through eval_filter_expr, .where, .emit and .process; expression kinds without an evaluator rule run in a child process so that an abort is observed. Dev profile with overflow checks on.", "Release profile not exercised.", "DESIGN §2 C11")
claim("C22", "fault_enumeration", "runtime monitor: crash-injecting StateStore under the real REST routes + model of acknowledged state",
      "Histories of <=8 tenant/pipeline management operations over 2 tenants x 3 pipelines through the real warp routes on a CrashStore (MemoryStore / FileStore) that fails every write from index k on, for EVERY k; restart through the path main.rs takes; recovered tenants, keys, pipelines (name, source, status) must equal the model before or after the single in-flight operation.", "Crash granularity is a whole put/delete (inside FileStore::put is C21's subject).", "DESIGN §2 C22")
claim("C26", "exploration", "runtime monitor: offline checker over the H7 cross-context trace + differential with the plain engine, under seeded schedule perturbation",
      "Real ContextOrchestrator on OS threads, capacities 1-1000, hook H7 yields/sleeps at recv/forward/barrier: every forwarded cross-context event received exactly once and in production order; outputs vs the same program without contexts. Reports distinct interleavings and full-queue episodes actually seen.", "Schedules are sampled, not enumerated; a missing receive counts as loss when H7 recorded the failed try_send; enqueued-but-unreceived after 1 s / 4 s reruns is inconclusive.", "DESIGN §2 C26")
claim("C27", "exploration", "runtime monitor: consistent-cut condition over the H7 trace for every completed coordinated checkpoint",
      "Random trigger_checkpoint positions on the same orchestrator runs; per completed checkpoint: forwarded-before-producer-barrier == received-before-consumer-barrier for every cross-context event; stored checkpoint holds one snapshot per context whose events_processed equals the events received before the barrier.", "Sampled schedules; the model-checked half of the quantifier is out of family; no restore+replay end-to-end lane.", "DESIGN §2 C27")
claim("C28", "exploration", "runtime monitor: request sequences through the real warp routes with deep tenant snapshots",
      "Sequences of 4-12 requests over 2-3 tenants and all 12 pipeline endpoints with own / foreign / unknown pipeline ids: a foreign request is never carried out, no response contains another tenant's data, every other tenant's deep snapshot (pipelines, sources, usage, engine counters, pending outputs, checkpoint) is unchanged after every request.", "inject-batch answers 200 {accepted:0} for foreign ids: 'carried out' is judged by effect, not status.", "DESIGN §2 C28")
claim("C31", "exploration", "runtime monitor: (dev,inode) oracle independent of canonicalize over random trees with symlinks",
      "Random directory trees with symlinks inside/outside/dangling/cyclic and path strings from a grammar; every path validate_path accepts (and every file the LoadFile handler reads) must stat into the inode set of a no-follow walk of the work directory.", "sanitize_filename / is_suspicious_path have no callers and are not checked.", "DESIGN §2 C31")
claim("C33", "exploration", "runtime monitor: history model of worker availability with bracketed virtual ages",
      "Histories over 1-4 workers (heartbeat, sweep+failover, drain, deregister, status change, deploy, manual migrate, rebalance) against mock workers: every placement on a registered Ready worker, pins honoured when the pinned worker is available, unhealthy exactly at the first sweep with age > timeout (age bracketed by before/after clock reads), heartbeat restores Ready.", "Ages by back-dating last_heartbeat; the exact-equality boundary is not observable with a real clock.", "DESIGN §2 C33")
claim("C34", "exploration", "runtime monitor: exhaustive matcher oracle + single/batch stickiness against recording mock workers",
      "event_type_matches / find_target_pipeline exhaustively over 26 patterns x 40 types and all small route tables; key-hash stickiness across the single (JSON) and batch (.evt) injection paths with int/float/string/missing keys; round-robin loads within 1 over every contiguous run.", "No NaN/inf keys; int and float of equal magnitude are different keys.", "DESIGN §2 C34")
claim("C35", "exploration", "runtime monitor: reference fold + snapshot differential + openraft's own storage conformance suite on both stores",
      "Random command logs over all command kinds in random batchings on MemStore and RocksStore vs a reference model; snapshot at every index installed on a fresh store + rest of log vs full replay; all tests of openraft::testing::Suite against both stores.", "RocksStore lanes sampled in quick.", "DESIGN §2 C35")
claim("C39", "exploration", "runtime monitor: inject -> parse -> load round trip with hostile parameter strings",
      "Validated connectors with hostile values injected into generated sources: result parses, other statements unchanged (AST, spans stripped), Engine::load shows exactly the stored strings.", "client_id_mode=append_pipeline excluded (documented rewrite).", "DESIGN §2 C39")
claim("C40", "exploration", "runtime monitor: equivalence-relation and eq=>hash checks over equivalence-heavy value pools",
      "Pools of values of depth <=3 over every variant incl. NaN, -0.0 and maps rebuilt in permuted orders: reflexivity, symmetry, transitivity on all triples, a==b => hash(a)==hash(b) under two hashers.", "", "DESIGN §2 C40")
claim("C41", "exploration", "runtime monitor: subprocess-sharded parser fuzzing with in-range location oracle and CPU-time bound",
      "Grammar-aware and byte-level mutations of the example programs parsed in subprocess shards (an abort is observed by the parent): returns Ok/Err, no abort, every reported position/line/column inside the ORIGINAL input, CPU time per input under a cap re-measured in isolation.", "Only out-of-range locations are decidable; cap is 90 s CPU (statement asks for bounded time only).", "DESIGN §2 C41")
claim("C42", "exploration", "runtime monitor: differential between loop expansion by the parser and by the harness's own substitution",
      "Loop trees (depth <=2, 0-6 iterations, .. and ..=) over several declaration kinds rendered with loops and hand-expanded; both parsed by the real parser; ASTs compared with spans stripped, order included.", "", "DESIGN §2 C42")
claim("C43", "exploration", "runtime monitor: catch_unwind + range-in-document oracle over all LSP handlers at every position",
      "All seven handlers on mutated documents (incl. multi-byte characters) at every position within and just past the text; no panic; every returned range inside the document.", "definition/references sampled every third position on documents > 120 bytes.", "DESIGN §2 C43")
claim("C44", "exploration", "runtime monitor: JSON round trip through the real inject / inject-batch routes with an exact-text number model",
      "JSON payloads of depth <=4 (i64/u64 boundaries, floats, unicode strings, nested arrays/objects, null) through POST /events and /events-batch into a pipeline that also emits type_of: in-engine type and returned JSON must equal the injected JSON (numbers compared exactly as text).", "Integers beyond 64 bit are only required to come back as the nearest double.", "DESIGN §2 C44")
claim("C46", "exploration", "runtime monitor: differential between the preloading and the streaming event-file reader",
      "Generated files from all documented line forms + all shipped .evt files through EventFileParser::parse and StreamingEventReader; same events in the same order, or both reject; disagreements located per line form.", "", "DESIGN §2 C46")

claim("C18", "exploration", "runtime monitor: differential on the real CLI binary run as subprocesses (N workers vs 1)",
      "The real `varpulis simulate --immediate [--preload] --workers N` binary, built from the current tree, on stateless and key-partitioned programs with generated .evt files: engine output counters (--quiet) for N in 2..8 must equal N=1, and the sorted multisets of OUTPUT EVENT lines must be equal whenever both verbose reports are complete w.r.t. those counters.", "The CLI's verbose report can lose lines at exit on a loaded machine (100 ms grace): such reports are retried and never decide a verdict. Subprocess timeouts are inconclusive.", "DESIGN §2 C18")
claim("C29", "exploration", "runtime monitor: exhaustive route x credential x RBAC-configuration matrix against the real warp filters, expectation table parsed from docs/api/openapi.yaml",
      "58 routes (cluster, tenant/SaaS, tenant-admin, raft) x credential kinds (none, 5 wrong forms, viewer, operator, admin, tenant key, each in the documented / all / undocumented header) x RBAC configurations; a request is served only if the credential grants the role the OpenAPI document (not the route code) requires; after every refused request the coordinator / tenant / Raft snapshot is unchanged; a path-template probe cross-checks the route enumeration.", "'/health', '/ready' and the root '/metrics' are defined inline in main.rs and not reachable through library filters; rate limiter off.", "DESIGN §2 C29")

claim("C19", "exploration", "runtime monitor: differential restored vs uninterrupted engine at every cut, through the real JSON codec",
      "For generated programs (every window kind plain/partitioned, sequences incl. all / .not, named AND / SEQ patterns, joins, distinct, limit, merge, derived chains, watermark-driven programs, variables) and EVERY cut: checkpoint, codec round trip, fresh load + restore, continue; per-step ordered outputs and final variables must equal the uninterrupted run. Signature = stream kind / how / first differing checkpoint component (or not-in-checkpoint).", "No .within (wall clock); pending negations need a wall-clock deadline and are not observable deterministically.", "DESIGN §2 C19, §7")
claim("C20", "exploration", "runtime monitor: serialize -> deserialize round trip compared through a canonical structural form",
      "Harvested (random engine states) and synthesised checkpoints with hostile event values (NaN, +-inf, -0.0, deep nesting, unicode, ns timestamps) through codec::serialize(Json) and auto-detecting deserialize; both must succeed, the checkpoint must be equal and restored events equal field by field and timestamp-exact.", "MessagePack codec not enabled in the harness build.", "DESIGN §2 C20")
claim("C21", "fault_enumeration", "runtime monitor: crash injection (hook H5) at every FileStore operation + op-log oracle",
      "CheckpointManager over FileStore: histories of <=8 saves, max_checkpoints 1-3, restarts; EVERY file-system operation is a fail-stop crash point, every write also a torn write, 5 corruption kinds of the newest files; recovery must return the last checkpoint whose rename completed (the newest readable one under corruption), never a partial payload, at most max files after each completed checkpoint(), ids increasing across restarts.", "Needs hook H5. 'Unreadable' is decided by load_checkpoint returning Err.", "DESIGN §2 C21")
claim("C23", "exploration", "runtime monitor: differential reloaded vs non-reloaded / fresh engines at every reload point (routes observed through hook H4)",
      "Same-program reload at every point must be invisible; with one edit (threshold, step, window, function body, rename) changed streams must equal a fresh engine of the new program from that point, unchanged streams the non-reloaded continuation, and ReloadReport must list changed streams as updated.", "Changed streams with stateful upstream / unchanged streams with changed upstream are not judged (counted).", "DESIGN §2 C23")
claim("C24", "exploration", "runtime monitor: reference watermark tracker + drop-justification oracle",
      "Real PerSourceWatermarkTracker under random observe/advance sequences and engine programs with .watermark / .allowed_lateness: per-source watermark never decreases, effective = min over sources, a uid missing from a pass-through consumer is allowed only if ts < wm_eff - max lateness of its consumers (wm_eff from the harness's own model).", "Only the 'only if' direction is judged.", "DESIGN §2 C24")
claim("C25", "exploration", "runtime monitor: brute-force trend enumeration vs Hamlet / GRETA / engine, alone and co-registered",
      "Brute-force enumeration of trends for 9 query shapes x 8 modes (Hamlet alone, co-registered shared / non-shared / adaptive, GRETA alone / co, engine alone / co) over all streams up to length 5 and random longer ones; each group's signature is computed from the smallest failing stream per failure kind so the set is deterministic. Almost every group disagrees today (111 known signatures); evidence lists the groups that agree.", "The known-finding list is the whole enumeration that fails today: the check's remaining power is a change of any group's smallest failing stream or a group that newly fails.", "DESIGN §2 C25")
claim("C30", "exploration", "runtime monitor: token-bucket bound over admitted pairs under the H8 virtual clock",
      "RateLimiter::check under the virtual clock: for every pair of admitted requests of one client within a tracked episode admitted <= burst + rate x dt (dt bracketed), every Limited carries a finite retry_after, no panic; rates 0-50, bursts 0-20, capacity 1-4 with eviction modelled and cross-checked against client_count().", "Needs hook H8 (process-global clock: single-threaded workload).", "DESIGN §2 C30")
claim("C32", "exploration", "runtime invariant monitor after every step: enumerated plan/commit phase orders + real handlers against gated mock workers",
      "Invariant (every Running placement on exactly one registered worker; assigned_pipelines multiset and pipelines_running match) checked after every step of (a) all plan/commit interleavings of up to 3 concurrent deploy/teardown/migrate operations with every task outcome, (b) real warp handlers, drain, failover, rebalance, reconcile, restart against loopback mock workers whose first call can be held open.", "Interleavings beyond triples are sampled.", "DESIGN §2 C32")
claim("C36", "fault_enumeration", "runtime monitor: crash injection (hook H6) at every RocksDB write + write-level model",
      "Protocol-legal RaftStorage histories (append, apply, build/install snapshot, purge, conflict delete, vote) on RocksStore; EVERY write index is a fail-stop crash point (subprocess shards, H6 is process-global); after reopen the vote, log, purge position and applied position must equal the model of completed writes and the state the fold of the committed commands up to the applied position.", "Needs hook H6.", "DESIGN §2 C36")
claim("C37", "exploration", "runtime monitor: offline checker over recorded apply histories of in-process 3-node Raft clusters under a fault matrix",
      "Real openraft + real MemStore/RocksStore + state machine with a harness network (directed cuts, loss, delay, leader isolation), node stop/restart, tokio paused time: equal applied position => equal state across nodes and time, state = fold of applied entries, every acknowledged write present after faults stop and a barrier write commits within bounded virtual time (else inconclusive).", "Schedules are sampled and not seed-reproducible (openraft's own RNG); no lane over the real HTTP transport; the TLA+ model of the quantifier is out of family.", "DESIGN §2 C37")
claim("C38", "exploration", "runtime monitor: view == view-after-sync_from_raft after every step on a real single-node Raft, plus a shadow follower",
      "Histories of API operations through the real handlers and health-loop iterations in main.rs order (asserted against the source text) on a Coordinator with a real single-node Raft and loopback mock workers: after every step re-synchronising from the replicated state must not change the coordinator's view, and a follower that only syncs must show the leader's view.", "No 3-node loopback cluster / black-box binary lane.", "DESIGN §2 C38")
claim("C45", "exploration", "runtime monitor: conservation + breaker automaton oracle under the H8 virtual clock, sequential exhaustive and concurrent lanes",
      "ResilientSink over a scripted downstream and a file DLQ: all outcome sequences up to length 8 x thresholds 1-4 x send/send_batch, random longer ones, and concurrent senders with the probe blocked inside the downstream: every uid delivered or dead-lettered as a readable entry naming sink and error; opens after exactly threshold failures, rejects until the reset timeout, exactly one probe while half-open.", "Needs hook H8. Events of a partially failed batch can be both delivered and dead-lettered (counted, not flagged).", "DESIGN §2 C45")

NOT_BUILT = "check not built yet in this session (see DESIGN.md §2 for the planned monitor); nothing is claimed for it"

# thorough tier: number of consecutive seeds the driver runs (./check --rounds N merges the evidence); chosen so that a
# thorough run of one check takes roughly 10-30 minutes on this machine
ROUNDS = {"C03": 8, "C05": 10, "C06": 10, "C07": 10, "C08": 12, "C09": 8, "C11": 8, "C12": 5, "C13": 6, "C15": 5, "C19": 3, "C20": 5,
          "C21": 6, "C23": 6, "C24": 8, "C25": 3, "C28": 4, "C29": 6, "C30": 6, "C33": 3, "C34": 2, "C38": 3, "C39": 4,
          "C40": 10, "C42": 3, "C43": 5, "C44": 3, "C45": 6, "C46": 8, "C26": 3, "C27": 3, "C36": 2, "C37": 2}

checks = []
for i in ids:
    if i not in C:
        continue
    level, tech, text, note, ref = C[i]
    checks.append({
        "property_id": i,
        "quick_cmd": "./check %s --tier quick" % i,
        "thorough_cmd": "./check %s --tier thorough" % i + (" --rounds %d" % ROUNDS[i] if ROUNDS.get(i, 1) > 1 else ""),
        "evidence_file": "/verif/evidence/%s.json" % i,
        "replay_cmd_template": "./check %s --replay {path}" % i,
        "engine": "vh",
        "level_claimed": {"category": level, "text": text, "design_ref": ref},
        "level_note": note,
        "technique": tech,
    })
hooks_commits = [l.strip() for l in open(os.path.join(V, "tools", "hook_commits.txt")) if l.strip() and not l.startswith("#")]
m = {
    "version": 1,
    "setup_cmd": "./setup.sh",
    "hooks": {
        "guard": "--cfg varpulis_verif (rustc cfg flag, passed through RUSTFLAGS by ./check)",
        "enable": "RUSTFLAGS='--cfg varpulis_verif' cargo build --offline -p vh --bin <cNN>  (cwd /verif/harness, target dir /verif/target; path dependencies point at /repo/crates/*)",
        "baseline_off_cmd": "cd /repo && cargo nextest run --workspace --no-fail-fast --test-threads 8 --offline || cargo test --workspace --no-fail-fast --offline",
        "source_commits": hooks_commits,
        "add_only": True,
    },
    "engines": [
        {"name": "vh", "path": "/verif/harness/vh", "serves_properties": sorted(C.keys()),
         "kind_free_text": "Rust harness crate, one binary per property (src/bin/cNN.rs): generated hostile workloads against the real crates with reference-model / differential / invariant monitors; driver ./check rebuilds from /repo's working tree"},
    ],
    "checks": checks,
    "notes": "Runtime monitoring only. Exit 0 = held on what was observed (KNOWN-FINDING lines allowed), 1 = VIOLATION, 2 = INCONCLUSIVE (never folded into the others). Known findings: /verif/KNOWN_FINDINGS.json.",
    "not_applicable": [{"property_id": i, "reason": NOT_BUILT} for i in ids if i not in C],
}
json.dump(m, open(os.path.join(V, "MANIFEST.json"), "w"), indent=1)
print("claimed", len(checks), "unclaimed", len(m["not_applicable"]))
