#!/usr/bin/env python3
"""Regenerates /verif/MANIFEST.json from the table below (kept in one place so the
manifest is valid at all times)."""
import json, os, sys
V = os.path.dirname(os.path.dirname(os.path.abspath(__file__)))
props = [json.loads(l) for l in open(os.path.join(V, "properties.jsonl"))]
ids = [p["id"] for p in props]

# id -> (level, technique, level text, level note, design ref)
C = {}
def claim(i, level, technique, text, note, ref):
    C[i] = (level, technique, text, note, ref)

claim("C06", "exploration", "runtime monitor: shadow set-family model in lock-step with real ZDD ops",
      "Every operation of Zdd / ZddArena / SharedArena is mirrored on explicit sets of sets and the whole family is compared after each step: exhaustively for all 256x256 family pairs over 3 variables x 4 binary ops (+ product_with_optional), randomly for op sequences of depth <=30 over <=5 variables with gc interleaved. Held on what was executed; not a proof for larger universes.",
      "Trusts the BTreeSet model and that SharedArena families are fully observable through contains() over the universe.", "DESIGN §2 C06")
claim("C07", "exploration", "runtime invariant monitor at quiescent points (hook H2 node dump) + shadow model",
      "After every step of random op/gc histories: equal family <=> equal root per arena, every stored node reduced and ordered (via the H2 node dump), gc-returned handles denote the pre-gc families, iteration yields each member once in ascending order.",
      "Needs hook H2 (cfg varpulis_verif). Canonicity is only comparable inside one arena.", "DESIGN §2 C07")

claim("C01", "exploration", "runtime monitor: independent soundness oracle over every emitted match",
      "Every match emitted by the real parse->load->process path for generated 1-4 step sequence programs (arrow and sequence() forms, optional all / partition_by / .not) is re-checked against the input stream with an evaluator that shares no code with the engine: arrival order, step types, step filters incl. cross-alias references, one partition value, no clause-satisfying negated event inside.",
      "Filters are limited to well-typed int/float/string comparisons so that evaluator corner cases (C08/C09) cannot leak in; .not is read per partition.", "DESIGN §2 C01")
claim("C02", "exploration", "runtime monitor: reference implementation of earliest-continuation semantics (differential)",
      "Multiset of uid tuples emitted by the engine == multiset computed by a 60-line reference matcher, for random programs x random streams and (thorough) all short streams over a reduced alphabet. Disagreements are classified by alternative models (global-negation reading, deferred 1-step completion) so that findings have exact signatures.",
      "Reference semantics = the property's text; matches completing at one event are unordered.", "DESIGN §2 C02")
claim("C03", "exploration", "runtime monitor: brute-force subset oracle + hook H1 (enumerated Kleene combinations)",
      "For streams A B^n C (n<=14) and both predicate classes the kept B's, the number of matches and (via hook H1) the uid set of every enumerated combination are compared with brute force over all ordered subsets, under every cap setting; `all` as last step included; VPL form cross-checked by match counts.",
      "Needs hook H1 (cfg varpulis_verif). Which events survive a max_kleene_events truncation is not specified and not checked beyond count/order/membership.", "DESIGN §2 C03")

claim("C04", "exploration", "runtime monitor: differential between combined run and per-key runs of the real engine",
      "multiset(out(P,S)) == disjoint union of out(P,S|k) over fresh engines, for partitioned sequence programs (incl. .not, all) and every partitioned window kind / window-less aggregate with uid-fingerprint aggregates; keys of one type incl. key-less events.",
      "Outputs compared by stream name and data fields; wall-clock emission time excluded.", "DESIGN §2 C04")
claim("C05", "exploration", "runtime invariant monitor on SaseEngine stats after every event",
      "After every event of adversarial streams and for all five backpressure strategies x max_runs 1-8 x five pattern shapes: runs per partition <= max_runs (tracked by differencing totals), Kleene events and results per completion within caps, no panic (catch_unwind).",
      "Per-partition counts are derived from public totals; debug-assertion/overflow-check build only.", "DESIGN §2 C05")
claim("C10", "exploration", "runtime monitor: differential folded vs unfolded AST of the same source (hook H3) through the real evaluator and engine",
      "Each generated expression is parsed with and without the folding pass and evaluated on events whose fields take 12 value kinds; results must agree in presence, variant and value; disagreements are minimised to the smallest differing sub-expression and classified by folding rule x operand kind; end-to-end lane through .emit/.where/.having.",
      "Needs hook H3. Cases where the unfolded evaluation panics are C11's subject and are skipped (counted).", "DESIGN §2 C10")

claim("C12", "exploration", "runtime monitor: conservation + shape oracle over real window objects and the engine (uid fingerprints)",
      "Every uid added to Tumbling/Count/Session windows (plain, partitioned; direct API and through the engine) must appear in exactly one emission or the final buffer, in arrival order, never twice, under arbitrary interleavings of add / advance_watermark / flush incl. out-of-order timestamps; count windows close with exactly their size; span / gap clauses for in-order streams under watermarks consistent with the stream. Exhaustive short streams over a 4-value timestamp alphabet + random histories.",
      "Shape clauses are only checked under watermarks that never exceed the largest timestamp seen (see DESIGN C12).", "DESIGN §2 C12")
claim("C13", "exploration", "runtime monitor: reference model of sliding emission timing and contents",
      "Emission timing and exact contents of time-sliding and count-sliding windows (plain, partitioned, direct and engine lanes) against a reference model, exhaustive over all (size, slide) in 1..5 squared x short in-order streams with ties, plus random streams; slide > size for count windows accepts both conceivable readings and reports which one was observed.",
      "Reading of 'starting once the window is first full' as in DESIGN C13.", "DESIGN §2 C13")
claim("C14", "exploration", "runtime monitor: path-agreement + definition oracle; Miri (scalar + AVX2) and valgrind memcheck over the only unsafe module",
      "Every aggregate on the row / shared / refs / columnar (fresh, pushed, cached, after drain) / Aggregator paths and through the engine against a straightforward reference and against each other on random batches incl. missing / NaN / inf / strings, all residues mod 4; raw simd kernels; sanitizer lanes: Miri interprets a deterministic subset on the scalar get_unchecked path and (with +avx2) the intrinsics path, valgrind memcheck runs the native AVX2 path of the same workload. Absence of reports = no UB observed on the executed batches.",
      "stddev/ema NaN handling and count_distinct across int/float-equal values are undocumented: only path agreement there. Miri cannot cross FFI; red-zone tools miss non-adjacent overflows.", "DESIGN §2 C14")
claim("C15", "exploration", "runtime monitor: reference join model compared at every arrival (direct JoinBuffer and engine lanes)",
      "For 2- and 3-way joins with small windows, few keys, caps 2-4 and out-of-order timestamps: an output exists iff every source has a retained same-key event with ts >= arriving.ts - window, and the partners are the most recently arrived such events; compared at every arrival. Disagreements are classified by witness features (late arrival with a partner below the high-water cutoff, cap interplay).",
      "One-sided window reading as try_correlate states it; retained = last cap arrivals per (source,key).", "DESIGN §2 C15")
claim("C16", "exploration", "runtime monitor: differential between the four real entry points, root-cause classification with hook H4",
      "Ordered output sequences of process / process_batch / process_batch_sync / process_batch_shared under random batch splits for generated multi-stream programs; a disagreement is classified order-only vs content by per-stream projection, and content disagreements are attributed to the known level-order-vs-depth-first root cause only when hook H4 shows the diverging stream (or one upstream) processed events at >=2 chain depths.",
      "Outputs compared by stream name and data; a defect that is only visible through a mixed-depth consumer is masked by the known finding (stated in DESIGN).", "DESIGN §2 C16")
claim("C17", "exploration", "runtime monitor: hook H4 routing trace vs harness-side consumption model",
      "For every (stream, event uid, depth) the number of times the stream processed that event instance (hook H4, all four entry points) must equal the consumption relation computed from the program text, closed over chain depth < 10; chains, diamonds via merge, self-named streams, streams without emit, terminal window/sequence/join consumers.",
      "Sequences/joins over derived streams are excluded (the engine resolves them to base type + filter, an internal choice).", "DESIGN §2 C17")

NOT_BUILT = "check not built yet in this session (see DESIGN.md §2 for the planned monitor); nothing is claimed for it"

checks = []
for i in ids:
    if i not in C:
        continue
    level, tech, text, note, ref = C[i]
    checks.append({
        "property_id": i,
        "quick_cmd": "./check %s --tier quick" % i,
        "thorough_cmd": "./check %s --tier thorough" % i,
        "evidence_file": "/verif/evidence/%s.json" % i,
        "replay_cmd_template": "./check %s --replay {path}" % i,
        "engine": "vh",
        "level_claimed": {"category": level, "text": text, "design_ref": ref},
        "level_note": note,
        "technique": tech,
    })
hooks_commits = [l.strip() for l in open(os.path.join(V, "tools", "hook_commits.txt")) if l.strip() and not l.startswith("#")]
m = {
    "version": 1,
    "setup_cmd": "./setup.sh",
    "hooks": {
        "guard": "--cfg varpulis_verif (rustc cfg flag, passed through RUSTFLAGS by ./check)",
        "enable": "RUSTFLAGS='--cfg varpulis_verif' cargo build --offline -p vh --bin <cNN>  (cwd /verif/harness, target dir /verif/target; path dependencies point at /repo/crates/*)",
        "baseline_off_cmd": "cd /repo && cargo nextest run --workspace --no-fail-fast --test-threads 8 --offline || cargo test --workspace --no-fail-fast --offline",
        "source_commits": hooks_commits,
        "add_only": True,
    },
    "engines": [
        {"name": "vh", "path": "/verif/harness/vh", "serves_properties": sorted(C.keys()),
         "kind_free_text": "Rust harness crate, one binary per property (src/bin/cNN.rs): generated hostile workloads against the real crates with reference-model / differential / invariant monitors; driver ./check rebuilds from /repo's working tree"},
    ],
    "checks": checks,
    "notes": "Runtime monitoring only. Exit 0 = held on what was observed (KNOWN-FINDING lines allowed), 1 = VIOLATION, 2 = INCONCLUSIVE (never folded into the others). Known findings: /verif/KNOWN_FINDINGS.json.",
    "not_applicable": [{"property_id": i, "reason": NOT_BUILT} for i in ids if i not in C],
}
json.dump(m, open(os.path.join(V, "MANIFEST.json"), "w"), indent=1)
print("claimed", len(checks), "unclaimed", len(m["not_applicable"]))
