#!/usr/bin/env python3
"""Regenerates /verif/MANIFEST.json from the table below (kept in one place so the
manifest is valid at all times)."""
import json, os, sys
V = os.path.dirname(os.path.dirname(os.path.abspath(__file__)))
props = [json.loads(l) for l in open(os.path.join(V, "properties.jsonl"))]
ids = [p["id"] for p in props]

# id -> (level, technique, level text, level note, design ref)
C = {}
def claim(i, level, technique, text, note, ref):
    C[i] = (level, technique, text, note, ref)

claim("C06", "exploration", "runtime monitor: shadow set-family model in lock-step with real ZDD ops",
      "Every operation of Zdd / ZddArena / SharedArena is mirrored on explicit sets of sets and the whole family is compared after each step: exhaustively for all 256x256 family pairs over 3 variables x 4 binary ops (+ product_with_optional), randomly for op sequences of depth <=30 over <=5 variables with gc interleaved. Held on what was executed; not a proof for larger universes.",
      "Trusts the BTreeSet model and that SharedArena families are fully observable through contains() over the universe.", "DESIGN §2 C06")
claim("C07", "exploration", "runtime invariant monitor at quiescent points (hook H2 node dump) + shadow model",
      "After every step of random op/gc histories: equal family <=> equal root per arena, every stored node reduced and ordered (via the H2 node dump), gc-returned handles denote the pre-gc families, iteration yields each member once in ascending order.",
      "Needs hook H2 (cfg varpulis_verif). Canonicity is only comparable inside one arena.", "DESIGN §2 C07")

claim("C01", "exploration", "runtime monitor: independent soundness oracle over every emitted match",
      "Every match emitted by the real parse->load->process path for generated 1-4 step sequence programs (arrow and sequence() forms, optional all / partition_by / .not) is re-checked against the input stream with an evaluator that shares no code with the engine: arrival order, step types, step filters incl. cross-alias references, one partition value, no clause-satisfying negated event inside.",
      "Filters are limited to well-typed int/float/string comparisons so that evaluator corner cases (C08/C09) cannot leak in; .not is read per partition.", "DESIGN §2 C01")
claim("C02", "exploration", "runtime monitor: reference implementation of earliest-continuation semantics (differential)",
      "Multiset of uid tuples emitted by the engine == multiset computed by a 60-line reference matcher, for random programs x random streams and (thorough) all short streams over a reduced alphabet. Disagreements are classified by alternative models (global-negation reading, deferred 1-step completion) so that findings have exact signatures.",
      "Reference semantics = the property's text; matches completing at one event are unordered.", "DESIGN §2 C02")
claim("C03", "exploration", "runtime monitor: brute-force subset oracle + hook H1 (enumerated Kleene combinations)",
      "For streams A B^n C (n<=14) and both predicate classes the kept B's, the number of matches and (via hook H1) the uid set of every enumerated combination are compared with brute force over all ordered subsets, under every cap setting; `all` as last step included; VPL form cross-checked by match counts.",
      "Needs hook H1 (cfg varpulis_verif). Which events survive a max_kleene_events truncation is not specified and not checked beyond count/order/membership.", "DESIGN §2 C03")

claim("C04", "exploration", "runtime monitor: differential between combined run and per-key runs of the real engine",
      "multiset(out(P,S)) == disjoint union of out(P,S|k) over fresh engines, for partitioned sequence programs (incl. .not, all) and every partitioned window kind / window-less aggregate with uid-fingerprint aggregates; keys of one type incl. key-less events.",
      "Outputs compared by stream name and data fields; wall-clock emission time excluded.", "DESIGN §2 C04")
claim("C05", "exploration", "runtime invariant monitor on SaseEngine stats after every event",
      "After every event of adversarial streams and for all five backpressure strategies x max_runs 1-8 x five pattern shapes: runs per partition <= max_runs (tracked by differencing totals), Kleene events and results per completion within caps, no panic (catch_unwind).",
      "Per-partition counts are derived from public totals; debug-assertion/overflow-check build only.", "DESIGN §2 C05")
claim("C10", "exploration", "runtime monitor: differential folded vs unfolded AST of the same source (hook H3) through the real evaluator and engine",
      "Each generated expression is parsed with and without the folding pass and evaluated on events whose fields take 12 value kinds; results must agree in presence, variant and value; disagreements are minimised to the smallest differing sub-expression and classified by folding rule x operand kind; end-to-end lane through .emit/.where/.having.",
      "Needs hook H3. Cases where the unfolded evaluation panics are C11's subject and are skipped (counted).", "DESIGN §2 C10")

NOT_BUILT = "check not built yet in this session (see DESIGN.md §2 for the planned monitor); nothing is claimed for it"

checks = []
for i in ids:
    if i not in C:
        continue
    level, tech, text, note, ref = C[i]
    checks.append({
        "property_id": i,
        "quick_cmd": "./check %s --tier quick" % i,
        "thorough_cmd": "./check %s --tier thorough" % i,
        "evidence_file": "/verif/evidence/%s.json" % i,
        "replay_cmd_template": "./check %s --replay {path}" % i,
        "engine": "vh",
        "level_claimed": {"category": level, "text": text, "design_ref": ref},
        "level_note": note,
        "technique": tech,
    })
hooks_commits = [l.strip() for l in open(os.path.join(V, "tools", "hook_commits.txt")) if l.strip() and not l.startswith("#")]
m = {
    "version": 1,
    "setup_cmd": "./setup.sh",
    "hooks": {
        "guard": "--cfg varpulis_verif (rustc cfg flag, passed through RUSTFLAGS by ./check)",
        "enable": "RUSTFLAGS='--cfg varpulis_verif' cargo build --offline -p vh --bin <cNN>  (cwd /verif/harness, target dir /verif/target; path dependencies point at /repo/crates/*)",
        "baseline_off_cmd": "cd /repo && cargo nextest run --workspace --no-fail-fast --test-threads 8 --offline || cargo test --workspace --no-fail-fast --offline",
        "source_commits": hooks_commits,
        "add_only": True,
    },
    "engines": [
        {"name": "vh", "path": "/verif/harness/vh", "serves_properties": sorted(C.keys()),
         "kind_free_text": "Rust harness crate, one binary per property (src/bin/cNN.rs): generated hostile workloads against the real crates with reference-model / differential / invariant monitors; driver ./check rebuilds from /repo's working tree"},
    ],
    "checks": checks,
    "notes": "Runtime monitoring only. Exit 0 = held on what was observed (KNOWN-FINDING lines allowed), 1 = VIOLATION, 2 = INCONCLUSIVE (never folded into the others). Known findings: /verif/KNOWN_FINDINGS.json.",
    "not_applicable": [{"property_id": i, "reason": NOT_BUILT} for i in ids if i not in C],
}
json.dump(m, open(os.path.join(V, "MANIFEST.json"), "w"), indent=1)
print("claimed", len(checks), "unclaimed", len(m["not_applicable"]))
